SPECIFICATION Spec
CONSTANTS
  Ids = {1, 2, 3}
  Vias = {2340, 1, 292}
  MaxDepth = 5
CONSTRAINT Depth
INVARIANT C16_Injective
PROPERTY C16_ValidChild
PROPERTY C16_OnlyRequesterChanges
PROPERTY C16_ReleaseFrees
PROPERTY C16_PersistIdentity
PROPERTY C16_LoadRestores
PROPERTY C16_RefuseWhenFull
CHECK_DEADLOCK FALSE
