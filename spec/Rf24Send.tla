------------------------------ MODULE Rf24Send ------------------------------
(* L2 model of RF24.send() / resend() composed with the L0 model of the       *)
(* nRF24L01+ PTX engine and a listening PRX (Enhanced ShockBurst), property   *)
(* C02.  One action per SPI transaction of the driver, as the code does it:   *)
(* the driver only ever sees the STATUS byte clocked out by its last          *)
(* transaction (`st`), and that byte shows the flags as they were BEFORE the   *)
(* command executed (datasheet 8.3.1).  The medium decides the fate of every  *)
(* attempt freely: "lost" (packet lost), "acklost" (delivered, ACK lost),     *)
(* "acked".                                                                   *)
(* Algo = "refresh": resend() takes one status refresh after raising CE       *)
(*        (the repaired code);  Algo = "stale": the code before the repair.   *)
(* Queued / Reload: a TX FIFO left full by write(write_only=True) uploads is   *)
(*        invisible in the cached STATUS; write() inside send() then refuses   *)
(*        the payload.  Reload = FALSE (code before the repair): send() polls  *)
(*        for ever - TLC refutes Termination; Reload = TRUE: flush, upload.    *)
EXTENDS Integers, Sequences, FiniteSets, TLC
CONSTANTS ARC,        \* automatic retransmissions per forced attempt
          MaxFR,      \* force_retry values explored: 0..MaxFR
          MaxCalls,
          Algo,
          Queued,     \* TRUE: the application may first fill the TX FIFO with write(write_only=True) uploads (CE low)
          Reload      \* TRUE: send() flushes and uploads again when write() refused the payload (the repaired code)
Fates == {"lost", "acklost", "acked"}

VARIABLES
  pc, call,           \* driver program counter and the open call [op, buf, fr, left]
  st,                 \* STATUS as last clocked out to the driver: [ds, fail, full]
  ncalls, result,
  fifo,               \* PTX TX FIFO: sequence of <<payload id, pid>>
  txds, maxrt, busy, arcCnt, ce, nextPid,
  peer, lastRx,       \* PRX: payload ids received (in order), duplicate filter
  air,                \* ground truth: sequence of <<payload id, fate, call number>>
  failed              \* payload id of the last call that returned False (for resend), 0 = none
vars == <<pc, call, st, ncalls, result, fifo, txds, maxrt, busy, arcCnt, ce, nextPid, peer, lastRx, air, failed>>

Snap == [ds |-> txds, fail |-> maxrt, full |-> Len(fifo) >= 3]    \* what the next SPI command clocks out
Kick(f, m, c, b) == IF ~b /\ c /\ f # <<>> /\ ~m THEN TRUE ELSE b    \* PTX starts a cycle when it can

Init == /\ pc = "idle" /\ call = [op |-> "none"] /\ st = [ds |-> FALSE, fail |-> FALSE, full |-> FALSE]
        /\ ncalls = 0 /\ result = "none" /\ fifo = <<>> /\ txds = FALSE /\ maxrt = FALSE /\ busy = FALSE
        /\ arcCnt = 0 /\ ce = FALSE /\ nextPid = 1 /\ peer = <<>> /\ lastRx = <<0, 0>> /\ air = <<>> /\ failed = 0

\* ---------------- driver: send(buf, force_retry = fr)
CallSend(fr) == /\ pc = "idle" /\ ncalls < MaxCalls /\ ncalls' = ncalls + 1
                /\ call' = [op |-> "send", buf |-> ncalls + 1, fr |-> fr] /\ result' = "none"
                /\ ce' = FALSE /\ pc' = "s_flush"                       \* self._ce_pin.value = False
                /\ UNCHANGED <<st, fifo, txds, maxrt, busy, arcCnt, nextPid, peer, lastRx, air, failed>>
\* if self._in[0] & 0x10 or self._in[0] & 1: flush_tx()
SFlush == /\ pc = "s_flush"
          /\ IF st.fail \/ st.full
             THEN st' = Snap /\ fifo' = <<>> /\ busy' = FALSE
             ELSE UNCHANGED <<st, fifo, busy>>
          /\ pc' = "s_clear" /\ UNCHANGED <<call, ncalls, result, txds, maxrt, arcCnt, ce, nextPid, peer, lastRx, air, failed>>
\* write(): clear_status_flags(); if TX_FULL return False
SClear == /\ pc = "s_clear" /\ st' = Snap /\ txds' = FALSE /\ maxrt' = FALSE
          /\ busy' = Kick(fifo, FALSE, ce, busy)
          /\ pc' = "s_load" /\ UNCHANGED <<call, ncalls, result, fifo, arcCnt, ce, nextPid, peer, lastRx, air, failed>>
\* three write(write_only=True) uploads with CE low: nothing is sent; the STATUS the driver holds afterwards was clocked out
\* before the third upload executed - it does not show TX_FULL
QueueFull == /\ Queued /\ pc = "idle" /\ ncalls = 0 /\ fifo = <<>> /\ ce' = FALSE
             /\ fifo' = <<<<101, 1>>, <<102, 2>>, <<103, 3>>>> /\ nextPid' = 1
             /\ st' = [ds |-> FALSE, fail |-> FALSE, full |-> FALSE]
             /\ UNCHANGED <<pc, call, ncalls, result, txds, maxrt, busy, arcCnt, peer, lastRx, air, failed>>
SLoad == /\ pc = "s_load"
         /\ IF st.full /\ Reload THEN /\ st' = Snap /\ fifo' = <<>> /\ busy' = FALSE /\ pc' = "s_clear"     \* flush_tx(); write() again
                                       /\ UNCHANGED <<nextPid, ce, arcCnt>>
            ELSE IF st.full THEN pc' = "s_wait" /\ UNCHANGED <<st, fifo, nextPid, ce, busy, arcCnt>>
            ELSE /\ st' = Snap /\ fifo' = Append(fifo, <<call.buf, nextPid>>) /\ nextPid' = (nextPid % 3) + 1
                 /\ ce' = TRUE /\ busy' = Kick(Append(fifo, <<call.buf, nextPid>>), maxrt, TRUE, busy)
                 /\ arcCnt' = (IF ~busy THEN 0 ELSE arcCnt) /\ pc' = "s_wait"
         /\ UNCHANGED <<call, ncalls, result, txds, maxrt, peer, lastRx, air, failed>>
\* while not self._in[0] & 0x30: update()
Poll(at, next) == /\ pc = at
                  /\ IF st.ds \/ st.fail THEN pc' = next /\ UNCHANGED st
                     ELSE st' = Snap /\ pc' = at
                  /\ UNCHANGED <<call, ncalls, result, fifo, txds, maxrt, busy, arcCnt, ce, nextPid, peer, lastRx, air, failed>>
SWait == Poll("s_wait", "s_eval")
\* result = bool(status & 0x20); while force_retry and not result: result = resend(); force_retry -= 1
SEval == /\ pc = "s_eval"
         /\ IF ~st.ds /\ call.fr > 0
            THEN pc' = "r_fifo" /\ call' = [call EXCEPT !.fr = call.fr - 1] /\ UNCHANGED <<result, failed>>
            ELSE /\ pc' = "idle" /\ result' = (IF st.ds THEN "true" ELSE "false") /\ call' = call
                 /\ failed' = IF st.ds THEN 0 ELSE call.buf
         /\ UNCHANGED <<st, ncalls, fifo, txds, maxrt, busy, arcCnt, ce, nextPid, peer, lastRx, air>>

\* ---------------- driver: resend() (also the body of the force_retry loop)
CallResend == /\ pc = "idle" /\ ncalls < MaxCalls /\ ncalls' = ncalls + 1 /\ result' = "none"
              /\ (Queued => ncalls > 0)          \* (with uploads of the application waiting, resend() would rightly send those)
              /\ call' = [op |-> "resend", buf |-> failed, fr |-> 0] /\ pc' = "r_fifo"
              /\ UNCHANGED <<st, fifo, txds, maxrt, busy, arcCnt, ce, nextPid, peer, lastRx, air, failed>>
\* if self.fifo(True, True): return False
RFifo == /\ pc = "r_fifo" /\ st' = Snap
         /\ IF fifo = <<>> THEN pc' = "idle" /\ result' = "false" /\ ce' = ce
            ELSE pc' = "r_clear" /\ ce' = FALSE /\ UNCHANGED result
         /\ UNCHANGED <<call, ncalls, fifo, txds, maxrt, busy, arcCnt, nextPid, peer, lastRx, air, failed>>
\* clear_status_flags(); CE high
RClear == /\ pc = "r_clear" /\ st' = Snap /\ txds' = FALSE /\ maxrt' = FALSE /\ ce' = TRUE
          /\ busy' = Kick(fifo, FALSE, TRUE, busy) /\ arcCnt' = (IF ~busy THEN 0 ELSE arcCnt)
          /\ pc' = (IF Algo = "refresh" THEN "r_refresh" ELSE "r_wait")
          /\ UNCHANGED <<call, ncalls, result, fifo, nextPid, peer, lastRx, air, failed>>
RRefresh == /\ pc = "r_refresh" /\ st' = Snap /\ pc' = "r_wait"
            /\ UNCHANGED <<call, ncalls, result, fifo, txds, maxrt, busy, arcCnt, ce, nextPid, peer, lastRx, air, failed>>
RWait == Poll("r_wait", "r_eval")
REval == /\ pc = "r_eval"
         /\ IF call.op = "send" THEN pc' = "s_eval" /\ UNCHANGED <<result, failed>>     \* back in the force_retry loop
            ELSE pc' = "idle" /\ result' = (IF st.ds THEN "true" ELSE "false") /\ failed' = IF st.ds THEN 0 ELSE failed
         /\ UNCHANGED <<st, call, ncalls, fifo, txds, maxrt, busy, arcCnt, ce, nextPid, peer, lastRx, air>>

\* ---------------- radio: one Enhanced ShockBurst attempt with a freely chosen fate
Attempt(f) ==
  /\ busy /\ fifo # <<>>
  /\ LET e == Head(fifo) IN
     /\ air' = Append(air, <<e[1], f, ncalls, call.buf>>)
     /\ (IF f # "lost" /\ lastRx # e THEN peer' = Append(peer, e[1]) /\ lastRx' = e
                                     ELSE UNCHANGED <<peer, lastRx>>)
     /\ (IF f = "acked" THEN txds' = TRUE /\ fifo' = Tail(fifo) /\ arcCnt' = arcCnt
                             /\ busy' = Kick(Tail(fifo), maxrt, ce, FALSE)
         ELSE IF arcCnt < ARC THEN arcCnt' = arcCnt + 1 /\ UNCHANGED <<txds, maxrt, fifo, busy>>
         ELSE maxrt' = TRUE /\ busy' = FALSE /\ UNCHANGED <<txds, fifo, arcCnt>>)
     /\ (f = "acked" => maxrt' = maxrt)
  /\ UNCHANGED <<pc, call, st, ncalls, result, ce, nextPid, failed>>

Driver == QueueFull \/ (\E fr \in 0..MaxFR : CallSend(fr)) \/ CallResend \/ SFlush \/ SClear \/ SLoad \/ SWait \/ SEval
          \/ RFifo \/ RClear \/ RRefresh \/ RWait \/ REval
Next == Driver \/ (\E f \in Fates : Attempt(f))
Spec == Init /\ [][Next]_vars
FairSpec == Spec /\ WF_vars(Driver) /\ WF_vars(\E f \in Fates : Attempt(f))

\* ---------------- C02 clauses
Returned == pc = "idle" /\ result # "none"
\* True iff the radio completed the transmission of this call's payload
C02_TrueIffDone == (Returned /\ call.op = "send") =>
                     ((result = "true") <=> (\E i \in 1..Len(air) : air[i][1] = call.buf /\ air[i][2] = "acked"))
\* False iff every automatic and forced retry went unacknowledged - and then all of them were made
C02_FalseIffExhausted == (Returned /\ call.op = "send" /\ result = "false") =>
                           (\A i \in 1..Len(air) : air[i][1] = call.buf => air[i][2] # "acked")
\* every packet on air carries the payload of the call during which it is sent: send(k) -> k, resend() -> the
\* payload that failed (nothing leaks into later calls)
C02_OnlyOwnPayload == \A i \in 1..Len(air) : air[i][1] = air[i][4]
\* the radio is idle whenever a call has returned (no background retransmission)
C02_QuietAfterReturn == Returned => ~busy
\* the peer gets every acknowledged payload exactly once, in order
C02_PeerOnce == \A i, j \in 1..Len(peer) : i # j => peer[i] # peer[j]
Termination == <>[](pc = "idle")
=============================================================================
