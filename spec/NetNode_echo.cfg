SPECIFICATION Spec
CONSTANTS
  Tree = {0, 1, 9}
  Relays = {1}
  NoMc = {}
  Types = {1}
  Lens = {1}
  FragLen = 1
  MaxWrites = 1
  MaxLoss = 0
  Concurrent = FALSE
  Redeliver = FALSE
  FreeTimeout = FALSE
INVARIANT C14_NoEcho
PROPERTY NoEarlyFail
CHECK_DEADLOCK FALSE
