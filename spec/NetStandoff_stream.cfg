SPECIFICATION Spec
CONSTANTS
  N = 4
  F = 2
  Tries = 2
  Mode = "stream"
INVARIANT C05_NoSilentLoss
CHECK_DEADLOCK FALSE
