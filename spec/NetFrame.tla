------------------------------ MODULE NetFrame ------------------------------
(* RF24Network wire formats (TMRh20 convention), written independently of the *)
(* Python code: 8-byte header, frame = header ++ message, fragmentation of    *)
(* messages longer than 24 bytes, and a TMRh20-style reference reassembler.   *)
(* Bytes are integers 0..255.  Property C11; also used by C05/C13 monitors.   *)
EXTENDS Integers, Sequences, FiniteSets, TLC, SequencesExt

FIRST == 148
MORE  == 149
LAST  == 150
MaxFrag == 24
LE16(n) == <<n % 256, (n \div 256) % 256>>
UnLE16(lo, hi) == lo + 256 * hi
PackHdr(h) == LE16(h.from) \o LE16(h.to) \o LE16(h.id) \o <<h.type % 256, h.reserved % 256>>
UnpackHdr(b) == [from |-> UnLE16(b[1], b[2]), to |-> UnLE16(b[3], b[4]), id |-> UnLE16(b[5], b[6]),
                 type |-> b[7], reserved |-> b[8]]
Hdr(f, t, i, ty, r) == [from |-> f, to |-> t, id |-> i, type |-> ty, reserved |-> r]
PackFrame(h, msg) == PackHdr(h) \o msg

Min2(a, b) == IF a < b THEN a ELSE b
NFrags(n) == IF n <= MaxFrag THEN 1 ELSE (n + MaxFrag - 1) \div MaxFrag
\* the frames one write() of `msg` puts on the air (as byte strings)
Fragments(h, msg) ==
  LET n == NFrags(Len(msg)) IN
  IF n = 1 THEN <<PackFrame(h, msg)>>
  ELSE [k \in 1..n |->
          PackFrame([h EXCEPT !.type = IF k = n THEN LAST ELSE IF k = 1 THEN FIRST ELSE MORE,
                              !.reserved = IF k = n THEN h.type ELSE n - k + 1],
                    SubSeq(msg, MaxFrag * (k - 1) + 1, Min2(MaxFrag * k, Len(msg))))]

\* TMRh20-style receiver: strict fragment counter, same origin and id; result [ok, type, msg]
NoRes == [ok |-> FALSE, type |-> 0, msg |-> <<>>]
Tmrh20Step(c, fr) ==      \* c = [st, from, id, cnt, msg, out]
  LET h == UnpackHdr(fr)  body == SubSeq(fr, 9, Len(fr)) IN
  IF c.st = "done" \/ c.st = "bad" THEN [c EXCEPT !.st = "bad"]
  ELSE IF h.type = FIRST THEN
       IF c.st = "idle" THEN [c EXCEPT !.st = "open", !.from = h.from, !.id = h.id, !.cnt = h.reserved, !.msg = body]
       ELSE [c EXCEPT !.st = "bad"]
  ELSE IF h.type = MORE THEN
       IF c.st = "open" /\ h.from = c.from /\ h.id = c.id /\ h.reserved = c.cnt - 1 /\ c.cnt - 1 >= 2
       THEN [c EXCEPT !.cnt = c.cnt - 1, !.msg = c.msg \o body] ELSE [c EXCEPT !.st = "bad"]
  ELSE IF h.type = LAST THEN
       IF c.st = "open" /\ h.from = c.from /\ h.id = c.id /\ c.cnt = 2
       THEN [c EXCEPT !.st = "done", !.msg = c.msg \o body, !.out = h.reserved] ELSE [c EXCEPT !.st = "bad"]
  ELSE IF c.st = "idle" THEN [c EXCEPT !.st = "done", !.msg = body, !.out = h.type, !.from = h.from, !.id = h.id]
  ELSE [c EXCEPT !.st = "bad"]
Tmrh20Reassemble(frames) ==
  LET c == FoldLeft(Tmrh20Step, [st |-> "idle", from |-> 0, id |-> 0, cnt |-> 0, msg |-> <<>>, out |-> 0], frames)
  IN IF c.st = "done" THEN [ok |-> TRUE, type |-> c.out, msg |-> c.msg, from |-> c.from, id |-> c.id]
     ELSE [ok |-> FALSE, type |-> 0, msg |-> <<>>, from |-> 0, id |-> 0]

=============================================================================
