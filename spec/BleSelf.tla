------------------------------- MODULE BleSelf -------------------------------
(* self-consistency of the reference: Decode inverts Encode on all three channels; one-bit errors are detected *)
EXTENDS BleLink
VARIABLES ch, n
Init == ch \in {37, 38, 39} /\ n \in 0..21
Next == UNCHANGED <<ch, n>>
Pdu(k) == <<66, 6 + k>> \o <<1, 2, 3, 4, 5, 6>> \o [i \in 1..k |-> (i * 37 + k) % 256]
RoundTrip == LET p == Encode(Pdu(n), ch)  d == Decode(p \o [i \in 1..(32 - Len(p)) |-> 0], ch) IN
             d.ok /\ d.pdu = Pdu(n) /\ Len(p) = n + 11
OneBitDetected == LET p == Encode(Pdu(n), ch)
                      q == [p EXCEPT ![3] = IF p[3] % 2 = 0 THEN p[3] + 1 ELSE p[3] - 1] IN
                  ~Decode(q \o [i \in 1..(32 - Len(q)) |-> 0], ch).ok
=============================================================================
