------------------------------ MODULE NetAddr ------------------------------
(* L1 definitions of the RF24Network logical address tree (octal digits 1..5, *)
(* up to four levels below the master 0) and of the physical 5-byte pipe      *)
(* addresses.  Written from the RF24Network addressing convention, not from   *)
(* the Python code.  Used by C04 (routing / pipe addresses), C15 (validity),  *)
(* C05/C13/C14 (expected routes) and C16 (valid children).                    *)
EXTENDS Integers, Sequences, FiniteSets, TLC

Pow8(k)      == 8^k
Bit2(v, b)   == (v \div (2^b)) % 2 = 1
Digit(a, k)  == (a \div Pow8(k)) % 8
NDigits(a)   == IF a = 0 THEN 0 ELSE IF a < 8 THEN 1 ELSE IF a < 64 THEN 2 ELSE IF a < 512 THEN 3
                ELSE IF a < 4096 THEN 4 ELSE IF a < 32768 THEN 5 ELSE 6
IsNode(a)    == a >= 0 /\ a < 4096 /\ \A k \in 0..(NDigits(a) - 1) : Digit(a, k) \in 1..5
Multicast    == {64, 8, 512}                       \* 0o100, 0o10, 0o1000 reserved
IsValid(a)   == a \in Multicast \/ IsNode(a)
Level(a)     == NDigits(a)
Parent(a)    == IF a = 0 THEN 0 ELSE a % Pow8(Level(a) - 1)
IsChildOf(c, p) == c # 0 /\ Parent(c) = p
IsDesc(n, d) == Level(d) > Level(n) /\ d % Pow8(Level(n)) = n
NextHop(n, d)    == IF IsDesc(n, d) THEN d % Pow8(Level(n) + 1) ELSE Parent(n)
PipeToward(n, d) == IF IsDesc(n, d) THEN 5 ELSE Digit(n, Level(n) - 1)
LevelAddr(l) == IF l = 0 THEN 0 ELSE Pow8(l - 1)   \* logical address standing for "level l"
Nodes        == {a \in 0..4095 : IsNode(a)}

\* physical address, LSByte first; suffix is the 6-byte table (1-indexed), prefix one byte
PhysAddr(a, p, prefix, suffix, mc) ==
  IF mc /\ p = 0 /\ a # 0
  THEN <<prefix, suffix[Level(a) + 1], prefix, prefix, prefix>>
  ELSE [i \in 1..5 |-> IF i = 1 THEN suffix[p + 1]
                       ELSE IF i - 1 <= Level(a) THEN suffix[Digit(a, i - 2) + 1] ELSE prefix]

NodesTo3     == {a \in Nodes : Level(a) <= 3} \cup {585, 1755, 2925, 668, 1250}   \* quick instance
Count781     == Cardinality(Nodes) = 781
=============================================================================
