------------------------------ MODULE NetNode ------------------------------
(* L2 model of the RF24Network node algorithm (network/mixins.py) on a small  *)
(* tree: write() / multicast() at an origin, the dispatch of every received   *)
(* frame in update() (for me / forward / multicast + relay), the hop-by-hop   *)
(* transmissions with their radio-level fate, the NETWORK_ACK the delivering  *)
(* router owes, and the origin's wait for it.                                 *)
(*                                                                            *)
(* One action per linearisation point of the code:                            *)
(*   Write / Mcast   the application's call (frame_buf prepared, first hop    *)
(*                   computed by _logi_2_phys)                                *)
(*   Arrive          the packet enters the RX FIFO of the next hop's radio    *)
(*   TxDone          _write_to_pipe() knows the radio-level result (send() +  *)
(*                   _tx_standby()), and the code's reaction to it in _write  *)
(*   Recv            _net_update() takes one payload out of the RX FIFO and   *)
(*                   dispatches it                                            *)
(*   Timeout         the NETWORK_ACK wait loop gives up                       *)
(*   Return          write()/multicast() hands its result to the application  *)
(*   Deq             the application reads a frame from the queue             *)
(* Deliberate quirks are modelled as the code has them: a NETWORK_ACK carries *)
(* the origin in from_node AND to_node; ANY NETWORK_ACK addressed to a waiting *)
(* node ends its wait; a forwarder that fails drops the frame silently.       *)
(* Abstractions: a node handles one frame at a time (its own transmissions    *)
(* included), time is abstracted into the fate of each transmission and into  *)
(* the enabling condition of Timeout (FreeTimeout).  Messages longer than     *)
(* FragLen travel as fragments (types 148/149/150, countdown in `rsv`): the    *)
(* origin streams them, every router treats each as a frame of an acknowledged *)
(* type (it owes a NETWORK_ACK per fragment it delivers), the destination      *)
(* re-assembles as FrameQueueFrag does.  The TX/TX stand-off this design makes *)
(* possible in real time is the subject of NetStandoff.tla.                    *)
EXTENDS NetAddr

CONSTANTS Tree,        \* node addresses, closed under Parent
          Relays,      \* nodes with multicast_relay on
          NoMc,        \* nodes with allow_multicast off
          Types,       \* message types the application uses
          Lens,        \* message lengths the application uses (model checking)
          FragLen,     \* bytes per frame (24 on the air; 1 in model checking)
          MaxWrites, MaxLoss,
          Concurrent,  \* FALSE: a new call only starts at quiescence (the C05 quantifier)
          FreeTimeout, \* TRUE: the NETWORK_ACK wait may give up at any moment (arbitrary latencies)
          Redeliver    \* TRUE: attempts whose ACKs are lost may enter the receiver again (ReArrive)

NETWORK_ACK == 193
MCAST       == 64
FIRST == 148
MORE  == 149
LAST  == 150
IsFragT(t)  == t \in {FIRST, MORE, LAST}
IsAckT(t)   == t > 64 /\ t < 192
NoFrame     == [src |-> -1]
NoTx        == [role |-> "none"]
FIFO        == 3
MAXQ        == 6

VARIABLES rx, q, tx, wait, res, call, cache,              \* algorithm state
          nw, loss, acks, deliv, rets, popped, mlvl, heard \* history
avars == <<rx, q, tx, wait, res, call, cache>>
hvars == <<nw, loss, acks, deliv, rets, popped, mlvl, heard>>
vars  == <<avars, hvars>>

\* a message (and a single frame) is [src, dst, typ, rsv, id, msg]; msg is a sequence
NFrags(m)   == IF Len(m.msg) <= FragLen THEN 1 ELSE (Len(m.msg) + FragLen - 1) \div FragLen
Frame(m, k) == LET n == NFrags(m) IN
               IF n = 1 THEN m
               ELSE [m EXCEPT !.typ = IF k = n THEN LAST ELSE IF k = 1 THEN FIRST ELSE MORE,
                              !.rsv = IF k = n THEN m.typ ELSE n - k + 1,
                              !.msg = SubSeq(m.msg, (k - 1) * FragLen + 1, IF k = n THEN Len(m.msg) ELSE k * FragLen)]
Frames(m)   == [k \in 1..NFrags(m) |-> Frame(m, k)]
Ack(f)      == [f EXCEPT !.dst = f.src, !.typ = NETWORK_ACK]      \* (the code sends reserved byte and message along)
Key(f)      == <<f.src, f.id, f.typ>>
IsDup(s, f) == \E i \in 1..Len(s) : Key(s[i]) = Key(f)
Enq(s, f)   == IF IsDup(s, f) \/ Len(s) >= MAXQ THEN s ELSE Append(s, f)
LevelNodes(l) == {m \in Tree : Level(m) = l /\ m \notin NoMc}
Idle(n)     == tx[n] = NoTx /\ wait[n] = NoFrame /\ call[n] = NoFrame
Quiescent   == \A n \in Tree : tx[n] = NoTx /\ rx[n] = <<>> /\ wait[n] = NoFrame /\ res[n] = "none"

Init ==
  /\ rx = [n \in Tree |-> <<>>] /\ q = [n \in Tree |-> <<>>]
  /\ tx = [n \in Tree |-> NoTx] /\ wait = [n \in Tree |-> NoFrame]
  /\ res = [n \in Tree |-> "none"] /\ call = [n \in Tree |-> NoFrame] /\ cache = [n \in Tree |-> NoFrame]
  /\ nw = 0 /\ loss = 0 /\ acks = <<>> /\ deliv = <<>> /\ rets = {} /\ popped = [n \in Tree |-> FALSE] /\ mlvl = {}
  /\ heard = {}

\* ---- application calls --------------------------------------------------------------------------------
Write(n, m) ==
  /\ Idle(n) /\ res[n] = "none" /\ m.src = n /\ m.dst \in Tree
  /\ call' = [call EXCEPT ![n] = m] /\ nw' = nw + 1 /\ popped' = [popped EXCEPT ![n] = FALSE] /\ mlvl' = mlvl
  /\ heard' = heard
  /\ IF m.dst = n                                     \* loop-back: the whole message straight into the node's own queue
     THEN /\ q' = [q EXCEPT ![n] = Enq(q[n], m)]
          /\ res' = [res EXCEPT ![n] = IF q'[n] # q[n] THEN "T" ELSE "F"]
          /\ deliv' = IF q'[n] # q[n] THEN Append(deliv, <<n, m>>) ELSE deliv
          /\ UNCHANGED <<rx, tx, wait, cache, loss, acks, rets>>
     ELSE /\ tx' = [tx EXCEPT ![n] = [role |-> "origin", f |-> Frame(m, 1), rest |-> Tail(Frames(m)),
                                      hop |-> NextHop(n, m.dst), got |-> {}]]
          /\ UNCHANGED <<rx, q, wait, res, cache, loss, acks, deliv, rets>>

Mcast(n, m, lvl) ==
  /\ Idle(n) /\ res[n] = "none" /\ m.src = n /\ m.dst = MCAST /\ lvl \in 0..4
  /\ call' = [call EXCEPT ![n] = m] /\ nw' = nw + 1 /\ popped' = [popped EXCEPT ![n] = FALSE]
  /\ mlvl' = mlvl \cup {<<m.id, lvl>>}
  /\ tx' = [tx EXCEPT ![n] = [role |-> "mcast", f |-> Frame(m, 1), rest |-> Tail(Frames(m)), hop |-> lvl, got |-> {}]]
  /\ UNCHANGED <<rx, q, wait, res, cache, loss, acks, deliv, rets, heard>>

\* ---- the radio link --------------------------------------------------------------------------------------
IsMc(t)  == t.role \in {"mcast", "relay"}
Targets(n) == IF IsMc(tx[n]) THEN LevelNodes(tx[n].hop) \ {n} ELSE {tx[n].hop} \cap Tree

\* the packet (first attempt that gets through) enters the RX FIFO of a radio that listens on the address
Arrive(n, m) ==
  /\ tx[n] # NoTx /\ m \in Targets(n) /\ m \notin tx[n].got /\ Len(rx[m]) < FIFO
  /\ rx' = [rx EXCEPT ![m] = Append(@, tx[n].f)]
  /\ tx' = [tx EXCEPT ![n].got = @ \cup {m}]
  /\ heard' = heard \cup {<<m, tx[n].f>>}
  /\ UNCHANGED <<q, wait, res, call, cache, nw, loss, acks, deliv, rets, popped, mlvl>>

\* The radio's duplicate filter only remembers the PREVIOUS packet (datasheet 7.5.2): when the ACKs of a transmission are
\* lost and another packet reaches the receiver between two attempts, a later attempt enters the RX FIFO again.
ReArrive(n, m) ==
  /\ tx[n] # NoTx /\ ~IsMc(tx[n]) /\ m \in tx[n].got /\ Len(rx[m]) < FIFO
  /\ rx' = [rx EXCEPT ![m] = Append(@, tx[n].f)]
  /\ UNCHANGED <<q, tx, wait, res, call, cache, hvars>>

NextFrag(t) == [t EXCEPT !.f = Head(t.rest), !.rest = Tail(t.rest), !.got = {}]    \* the next fragment of the stream

\* what _write() / _write_to_pipe() do once the radio-level result `ok` of the current frame is known
\* (unicast: ok = an ACK was heard, which implies the packet arrived; multicast: always "sent")
TxDone(n, ok) ==
  /\ tx[n] # NoTx
  /\ LET t == tx[n]  f == t.f IN
     /\ IsMc(t) => ok
     /\ (~IsMc(t) /\ ok) => t.got # {}
     /\ loss' = IF ~IsMc(t) /\ ~ok /\ (t.hop \in Tree => Len(rx[t.hop]) < FIFO \/ t.got # {}) THEN loss + 1
                ELSE IF IsMc(t) /\ t.got # Targets(n) THEN loss + 1 ELSE loss
     /\ CASE t.role = "origin" /\ ok /\ t.rest # <<>> ->       \* stream the next fragment without waiting
               /\ tx' = [tx EXCEPT ![n] = NextFrag(t)] /\ UNCHANGED <<wait, res, acks>>
          [] t.role = "origin" /\ ~(ok /\ t.rest # <<>>) ->
               \* the wait depends on the MESSAGE's type (is_ack_t is taken before the fragment loop)
               IF ok /\ IsAckT(call[n].typ) /\ t.hop # f.dst
               THEN /\ wait' = [wait EXCEPT ![n] = call[n]] /\ tx' = [tx EXCEPT ![n] = NoTx]
                    /\ UNCHANGED <<res, acks>>
               ELSE /\ res' = [res EXCEPT ![n] = IF ok THEN "T" ELSE "F"] /\ tx' = [tx EXCEPT ![n] = NoTx]
                    /\ UNCHANGED <<wait, acks>>
          [] t.role = "mcast" ->
               IF t.rest # <<>> THEN /\ tx' = [tx EXCEPT ![n] = NextFrag(t)] /\ UNCHANGED <<wait, res, acks>>
               ELSE /\ res' = [res EXCEPT ![n] = "T"] /\ tx' = [tx EXCEPT ![n] = NoTx] /\ UNCHANGED <<wait, acks>>
          [] t.role = "fwd" ->
               IF ok /\ IsAckT(f.typ) /\ t.hop = f.dst /\ f.src # n
               THEN /\ tx' = [tx EXCEPT ![n] = [role |-> "ack", f |-> Ack(f), rest |-> <<>>, hop |-> NextHop(n, f.src), got |-> {}]]
                    /\ acks' = Append(acks, <<n, f>>) /\ UNCHANGED <<wait, res>>
               ELSE /\ tx' = [tx EXCEPT ![n] = NoTx] /\ UNCHANGED <<wait, res, acks>>
          [] OTHER ->                                   \* "ack", "relay": nothing depends on the result
               /\ tx' = [tx EXCEPT ![n] = NoTx] /\ UNCHANGED <<wait, res, acks>>
  /\ UNCHANGED <<rx, q, call, cache, nw, deliv, rets, popped, mlvl, heard>>

\* ---- _net_update(): one payload out of the RX FIFO ---------------------------------------------------------
\* FrameQueueFrag.enqueue() as the code has it: <<queue afterwards, cache afterwards>>
Reassemble(s, c, f) ==
  IF f.typ = FIRST THEN <<s, f>>
  ELSE IF c # NoFrame /\ f.dst = c.dst /\ f.src = c.src /\ f.id = c.id
       THEN IF (f.typ = MORE /\ c.rsv - 1 # f.rsv) \/ (f.typ = LAST /\ c.rsv > 2) THEN <<s, c>>       \* out of sequence
            ELSE IF f.typ = LAST
                 THEN <<Enq(s, [f EXCEPT !.typ = f.rsv, !.rsv = 0, !.msg = c.msg \o f.msg]), NoFrame>>
                 ELSE <<s, [f EXCEPT !.msg = c.msg \o f.msg]>>
       ELSE <<s, c>>                                                                                  \* no such message
Accept(n, f) == IF IsFragT(f.typ) THEN Reassemble(q[n], cache[n], f) ELSE <<Enq(q[n], [f EXCEPT !.rsv = 0]), cache[n]>>
Newly(n, s)  == IF s # q[n] THEN Append(deliv, <<n, s[Len(s)]>>) ELSE deliv

Recv(n) ==
  /\ tx[n] = NoTx /\ res[n] = "none" /\ rx[n] # <<>>
  /\ LET f == Head(rx[n]) IN
     /\ rx' = [rx EXCEPT ![n] = Tail(@)]
     /\ CASE f.dst = n /\ f.typ = NETWORK_ACK ->        \* ends a wait of this node, whichever message it answers
               /\ IF wait[n] # NoFrame
                  THEN /\ res' = [res EXCEPT ![n] = "T"] /\ wait' = [wait EXCEPT ![n] = NoFrame]
                       /\ popped' = [popped EXCEPT ![n] = TRUE]
                  ELSE UNCHANGED <<res, wait, popped>>
               /\ UNCHANGED <<q, cache, tx, deliv>>
          [] f.dst = n /\ f.typ # NETWORK_ACK ->
               /\ q' = [q EXCEPT ![n] = Accept(n, f)[1]] /\ cache' = [cache EXCEPT ![n] = Accept(n, f)[2]]
               /\ deliv' = Newly(n, Accept(n, f)[1])
               /\ UNCHANGED <<tx, res, wait, popped>>
          [] f.dst = MCAST ->                           \* heard on the level's shared address
               /\ q' = [q EXCEPT ![n] = Accept(n, f)[1]] /\ cache' = [cache EXCEPT ![n] = Accept(n, f)[2]]
               /\ deliv' = Newly(n, Accept(n, f)[1])
               /\ tx' = IF n \in Relays /\ n \notin NoMc
                        THEN [tx EXCEPT ![n] = [role |-> "relay", f |-> f, rest |-> <<>>, hop |-> Level(n) + 1, got |-> {}]] ELSE tx
               /\ UNCHANGED <<res, wait, popped>>
          [] OTHER ->                                   \* pass it along
               /\ tx' = [tx EXCEPT ![n] = [role |-> "fwd", f |-> f, rest |-> <<>>, hop |-> NextHop(n, f.dst), got |-> {}]]
               /\ UNCHANGED <<q, cache, res, wait, deliv, popped>>
  /\ UNCHANGED <<call, nw, loss, acks, rets, mlvl, heard>>

\* something in the system can still turn into a NETWORK_ACK for n
IsPartOf(f, m) == f.src = m.src /\ f.id = m.id /\ f.typ # NETWORK_ACK
Travelling(n) ==
  \/ \E m \in Tree : \E i \in 1..Len(rx[m]) : IsPartOf(rx[m][i], wait[n]) \/ (rx[m][i].typ = NETWORK_ACK /\ rx[m][i].dst = n)
  \/ \E m \in Tree : tx[m] # NoTx /\ (IsPartOf(tx[m].f, wait[n]) \/ (tx[m].f.typ = NETWORK_ACK /\ tx[m].f.dst = n))

Timeout(n) ==
  /\ wait[n] # NoFrame /\ tx[n] = NoTx /\ res[n] = "none"
  /\ FreeTimeout \/ ~Travelling(n)
  /\ res' = [res EXCEPT ![n] = "F"] /\ wait' = [wait EXCEPT ![n] = NoFrame]
  /\ UNCHANGED <<rx, q, tx, call, cache, hvars>>

Return(n) ==
  /\ res[n] # "none" /\ call[n] # NoFrame
  /\ rets' = rets \cup {[f |-> call[n], res |-> res[n], popped |-> popped[n]]}
  /\ call' = [call EXCEPT ![n] = NoFrame] /\ res' = [res EXCEPT ![n] = "none"]
  /\ UNCHANGED <<rx, q, tx, wait, cache, nw, loss, acks, deliv, popped, mlvl, heard>>

Deq(n) ==
  /\ q[n] # <<>> /\ q' = [q EXCEPT ![n] = Tail(@)]
  /\ UNCHANGED <<rx, tx, wait, res, call, cache, hvars>>

\* ---- bounded instance ---------------------------------------------------------------------------------------
NewMsg(n, d, t, len) == [src |-> n, dst |-> d, typ |-> t, rsv |-> 0, id |-> nw + 1, msg |-> [i \in 1..len |-> 10 * (nw + 1) + i]]
Next ==
  \/ \E n \in Tree, d \in Tree, t \in Types, len \in Lens :
        nw < MaxWrites /\ (Concurrent \/ Quiescent) /\ Write(n, NewMsg(n, d, t, len))
  \/ \E n \in Tree, l \in 0..4, t \in Types :
        nw < MaxWrites /\ (Concurrent \/ Quiescent) /\ Mcast(n, NewMsg(n, MCAST, t, 1), l)
  \/ \E n \in Tree, m \in Tree : Arrive(n, m)
  \/ \E n \in Tree, m \in Tree : Redeliver /\ MaxLoss > 0 /\ ReArrive(n, m)
  \/ \E n \in Tree : TxDone(n, TRUE)
  \/ \E n \in Tree : TxDone(n, FALSE) /\ loss' <= MaxLoss
  \/ \E n \in Tree : Recv(n) \/ Timeout(n) \/ Return(n) \/ Deq(n)
Spec == Init /\ [][Next]_vars
Fair == Spec /\ WF_vars(Next)

\* a transmission is only reported before its packet arrived when it counts as a loss
NoEarlyFail == [][\A n \in Tree : (tx[n] # NoTx /\ tx'[n] # tx[n] /\ loss' = loss /\ ~IsMc(tx[n]) /\ tx[n].hop \in Tree
                                   /\ Len(rx[tx[n].hop]) < FIFO) => tx[n].got # {} \/ tx'[n].f = tx[n].f]_vars

\* ---- what the properties say, at this level ------------------------------------------------------------------
Routed(f)   == f.dst # MCAST /\ NextHop(f.src, f.dst) # f.dst /\ f.dst # f.src
Copies(n, f) == Cardinality({i \in 1..Len(deliv) : deliv[i] = <<n, f>>})
Written     == {r.f : r \in rets} \cup {call[n] : n \in {m \in Tree : call[m] # NoFrame}}
AcksFor(f)  == Cardinality({i \in 1..Len(acks) : acks[i][2] = f})

C13_WaitOnlyIfNeeded == \A n \in Tree : wait[n] # NoFrame => IsAckT(wait[n].typ) /\ Routed(wait[n])
C13_TrueOnlyIfArrived == \A r \in rets : (r.res = "T" /\ IsAckT(r.f.typ) /\ Routed(r.f)) => r.popped
\* one NETWORK_ACK per frame delivered over a last hop (per fragment for fragmented messages), only for acknowledged
\* frame types on routed paths, only after the frame entered its destination's radio
C13_AckOnce  == \A i \in 1..Len(acks) : AcksFor(acks[i][2]) <= 1
C13_AckOnlyIfOwed ==
  \A i \in 1..Len(acks) : LET f == acks[i][2] IN IsAckT(f.typ) /\ Routed(f) /\ <<f.dst, f>> \in heard
C05_AtMostOnce == \A i \in 1..Len(deliv) : LET n == deliv[i][1]  f == deliv[i][2] IN
                     /\ f \in Written /\ Copies(n, f) = 1
                     /\ f.dst # MCAST => n = f.dst
AllReturned == \A n \in Tree : call[n] = NoFrame
\* loss-free, one message at a time: delivered exactly once, re-assembled, and reported True (C05; C14 for multicasts)
C05_Delivered ==
  (loss = 0 /\ Quiescent /\ AllReturned) =>
     \A r \in rets : /\ r.res = "T"
                     /\ r.f.dst # MCAST => Copies(r.f.dst, r.f) = 1
\* a multicast is queued by nodes of the addressed level (deeper levels only through relays), never by a node that does
\* not allow multicast
C14_ExactlyLevel ==
  \A i \in 1..Len(deliv) : LET n == deliv[i][1]  f == deliv[i][2] IN
     f.dst = MCAST => /\ n \notin NoMc
                      /\ \E p \in mlvl : p[1] = f.id /\ (Level(n) = p[2] \/ (Level(n) > p[2] /\ Relays # {}))
\* expected to FAIL when a relay sits on the addressed level and the origin one level below it: the origin queues its own
\* multicast when the relay re-broadcasts it (observation; the statement of C14 does not speak about it)
C14_NoEcho == \A i \in 1..Len(deliv) : deliv[i][2].dst = MCAST => deliv[i][1] # deliv[i][2].src
\* expected to FAIL with Concurrent + FreeTimeout (documented observation: a stale NETWORK_ACK is believed)
AckAnswersTheAwaited ==
  \A n \in Tree : (wait[n] # NoFrame /\ rx[n] # <<>> /\ Head(rx[n]).typ = NETWORK_ACK /\ Head(rx[n]).dst = n /\ tx[n] = NoTx)
                   => Head(rx[n]).id = wait[n].id
\* expected to FAIL for fragmented acknowledged messages: the NETWORK_ACK of the FIRST fragment already ends the origin's
\* wait - True is reported before the last fragment reached the destination (and stays True if that one is lost)
TrueMeansWholeMessageArrived ==
  \A r \in rets : (r.res = "T" /\ r.f.dst # MCAST /\ r.f.dst # r.f.src /\ IsAckT(r.f.typ) /\ Routed(r.f))
                    => <<r.f.dst, Frame(r.f, NFrags(r.f))>> \in heard
Termination == <>[](AllReturned /\ Quiescent)

View == avars
Bound == TLCGet("level") <= 60
=============================================================================
