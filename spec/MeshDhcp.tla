------------------------------ MODULE MeshDhcp ------------------------------
(* Property C16: the mesh master's address table.                             *)
(* L1 clauses (Injective, ValidLease, ...) are pure operators over a table;   *)
(* the L2 part models the master's allocation algorithm as the code does it   *)
(* (highest free child slot first, direct requesters may get slot 5, 0o4444   *)
(* skipped).  TLC checks L2 against L1 exhaustively; every edge is replayed   *)
(* on a real RF24Mesh master and the observations are judged by TraceMeshDhcp.*)
EXTENDS NetAddr

DefaultAddr == 2340                         \* 0o4444: address of a node without a lease
NoAddr == -1
\* a table is a function id -> address (NoAddr = no lease)
Leased(t)      == {i \in DOMAIN t : t[i] # NoAddr}
Injective(t)   == \A i, j \in Leased(t) : i # j => t[i] # t[j]
\* an address handed out to a request that arrived through `via` (DefaultAddr = direct)
ViaNode(via)   == IF via = DefaultAddr THEN 0 ELSE via
ValidLease(a, via, id, tBefore) ==
   /\ IsNode(a) /\ a # 0 /\ a # DefaultAddr
   /\ IsChildOf(a, ViaNode(via))
   /\ \A j \in Leased(tBefore) : j # id => tBefore[j] # a

\* ---- L2: the allocation algorithm
ChildSlot(via, i) == ViaNode(via) + i * Pow8(Level(ViaNode(via)))
Slots(via)  == IF via = DefaultAddr THEN <<5, 4, 3, 2, 1>> ELSE <<4, 3, 2, 1>>
FreeFor(t, id, a) == a # DefaultAddr /\ \A j \in Leased(t) : j # id => t[j] # a
Candidates(t, id, via) == SelectSeq(Slots(via), LAMBDA i : FreeFor(t, id, ChildSlot(via, i)))
Alloc(t, id, via) == IF Candidates(t, id, via) = <<>> THEN NoAddr ELSE ChildSlot(via, Head(Candidates(t, id, via)))

CONSTANTS Ids, Vias, MaxDepth
VARIABLES dhcp, last, saved      \* saved: the table written by the last save_dhcp() (one file), [fmt, tab] or none
vars == <<dhcp, last, saved>>
NoFile == [fmt |-> "none", tab |-> <<>>]
Init == dhcp = [i \in Ids |-> NoAddr] /\ last = [op |-> "init"] /\ saved = NoFile
Request(id, via) == LET a == Alloc(dhcp, id, via) IN
   /\ dhcp' = IF a = NoAddr THEN dhcp ELSE [dhcp EXCEPT ![id] = a]
   /\ last' = [op |-> "req", id |-> id, via |-> via, addr |-> a] /\ UNCHANGED saved
\* MESH_ADDR_RELEASE from a node holding address a (only leased addresses are released by honest nodes)
Release(id) == /\ dhcp[id] # NoAddr
               /\ dhcp' = [dhcp EXCEPT ![id] = NoAddr] /\ last' = [op |-> "rel", id |-> id, addr |-> dhcp[id]] /\ UNCHANGED saved
SaveLoad(fmt) == /\ dhcp' = dhcp /\ last' = [op |-> "saveload", fmt |-> fmt] /\ UNCHANGED saved    \* save, load into an empty master
\* save now, load later into the SAME (meanwhile changed) master: every saved pair is back, whoever held one of the
\* saved addresses in between loses it (an address is never mapped twice), other leases stay
Save(fmt) == /\ saved' = [fmt |-> fmt, tab |-> dhcp] /\ dhcp' = dhcp /\ last' = [op |-> "save", fmt |-> fmt]
Merge(cur, file) == [i \in DOMAIN cur |-> IF file[i] # NoAddr THEN file[i]
                                          ELSE IF \E j \in DOMAIN file : file[j] # NoAddr /\ file[j] = cur[i] THEN NoAddr ELSE cur[i]]
Load == /\ saved # NoFile /\ dhcp' = Merge(dhcp, saved.tab) /\ last' = [op |-> "load", fmt |-> saved.fmt] /\ UNCHANGED saved
Next == \/ \E id \in Ids, via \in Vias : Request(id, via)
        \/ \E id \in Ids : Release(id)
        \/ \E fmt \in {"json", "bin"} : SaveLoad(fmt) \/ Save(fmt)
        \/ Load
Spec == Init /\ [][Next]_vars

C16_Injective == Injective(dhcp)
C16_ValidChild == [][\A id \in Ids : dhcp'[id] # dhcp[id] /\ dhcp'[id] # NoAddr /\ last'.op # "load" =>
                       \E via \in Vias : last'.op = "req" /\ last'.via = via /\ ValidLease(dhcp'[id], via, id, dhcp)]_vars
C16_OnlyRequesterChanges == [][last'.op = "req" => \A j \in Ids : j # last'.id => dhcp'[j] = dhcp[j]]_vars
C16_ReleaseFrees == [][last'.op = "rel" => dhcp'[last'.id] = NoAddr /\ \A j \in Ids : dhcp'[j] # last'.addr]_vars
C16_LoadRestores == [][last'.op = "load" => \A i \in Ids : saved.tab[i] # NoAddr => dhcp'[i] = saved.tab[i]]_vars
C16_PersistIdentity == [][last'.op = "saveload" => dhcp' = dhcp]_vars
\* a full parent refuses (no lease, table untouched) rather than handing out a duplicate
C16_RefuseWhenFull == [][last'.op = "req" /\ last'.addr = NoAddr => dhcp' = dhcp]_vars
Depth == TLCGet("level") <= MaxDepth

\* ---- unbounded depth: Injective (for the table and for the saved file) is an INDUCTIVE invariant.  TLC starts from every
\* injective table over the addresses the Vias can yield (times every saved file) and checks one step of Next from each: the
\* invariant and all action clauses then hold on every transition of every reachable state, whatever the history length.
Universe == {NoAddr} \cup ({ChildSlot(via, i) : via \in Vias, i \in 1..5} \ {DefaultAddr})
IndInv == /\ dhcp \in [Ids -> Universe] /\ Injective(dhcp)
          /\ saved \in {NoFile} \cup [fmt : {"json", "bin"}, tab : {t \in [Ids -> Universe] : Injective(t)}]
IndInit == IndInv /\ last = [op |-> "init"]
IndView == <<dhcp, saved>>
=============================================================================
