------------------------------- MODULE BleGen -------------------------------
(* independent encoder for C19: PDUs (octets) chosen by the harness are turned into nRF24L01 payloads by BleLink!Encode *)
EXTENDS BleLink, Json, IOUtils
V == JsonDeserialize(IOEnv.TRACE_FILE)
VARIABLE tid
TInit == tid \in 1..Len(V)
TNext == UNCHANGED tid
Emit == PrintT("ENC " \o ToString(<<tid, Encode(V[tid].pdu, V[tid].ch)>>))
=============================================================================
