--------------------------- MODULE NetAddrTable ---------------------------
(* C04 decided on the IMPLEMENTATION's tables (binding direction C).          *)
(* The harness records, through public behaviour on the radio double:         *)
(*   addrs[i]        the 781 node addresses                                   *)
(*   A[a]            interned distinct 5-byte addresses seen anywhere         *)
(*   phys[i][p+1]    index into A of RX_ADDR_Pp of node i after construction  *)
(*   en[i]           EN_RXADDR of node i                                      *)
(*   tx[i][j]        index into A of the address the first transmission of    *)
(*                   write() at node i for destination j went to (0 = none)   *)
(*   mc[i][l+1]      same for multicast(level=l)                              *)
(*   ownN, ownP      claimed owner (node index, pipe) of each interned address*)
(*                   (0 = nobody); the claim is verified below, which makes   *)
(*                   uniqueness a linear check                                *)
(* Interning is a bijective renaming done by the harness; every judgement is  *)
(* made here.                                                                 *)
EXTENDS NetAddr, Json, IOUtils
T == JsonDeserialize(IOEnv.TABLE_FILE)
N == Len(T.addrs)
Dst == {T.dsts[k] : k \in 1..Len(T.dsts)}                      \* destination indices covered by tx (all of 1..N in thorough)
Idx(a) == CHOOSE i \in 1..N : T.addrs[i] = a

\* ---- static clauses (ASSUMEs print a verdict line; the harness reads them)
OwnersVerified ==      \* every unicast pipe is the registered owner of its address => pipe addresses are unique
  \A i \in 1..N : \A p \in 1..5 : LET a == T.phys[i][p + 1] IN T.ownN[a] = i /\ T.ownP[a] = p
PipesShareBase == \A i \in 1..N : \A p \in 2..5 : \A b \in 2..5 : T.A[T.phys[i][p + 1]][b] = T.A[T.phys[i][2]][b]
AllOpen        == \A i \in 1..N : T.en[i] = 63
\* lvl[i] = the node's configured multicast level (by default the level of its address)
HasLevel(l) == \E i \in 1..N : T.lvl[i] = l
FirstAtLevel(l) == CHOOSE i \in 1..N : T.lvl[i] = l /\ \A j \in 1..N : T.lvl[j] = l => i <= j
LvlA(l) == T.phys[FirstAtLevel(l)][1]
LevelShared == IF T.mcast
  THEN /\ \A i \in 1..N : T.phys[i][1] = LvlA(T.lvl[i])                       \* same level  => same pipe-0 address
       /\ \A l1, l2 \in 0..4 : (l1 # l2 /\ HasLevel(l1) /\ HasLevel(l2)) => LvlA(l1) # LvlA(l2)   \* other level => other address
       /\ \A l \in 0..4 : HasLevel(l) => T.ownN[LvlA(l)] = 0                 \* and it is nobody's unicast pipe
  ELSE \A i \in 1..N : T.ownN[T.phys[i][1]] = i /\ T.ownP[T.phys[i][1]] = 0  \* opted out: pipe 0 is a private address
McSrc == {T.mcsrc[k] : k \in 1..Len(T.mcsrc)}
McastToLevel == T.mcast => \A i \in McSrc : \A l \in 0..4 :
                    (T.addrs[i] = 0 /\ l = 0) \/ ~HasLevel(l) \/ T.mc[i][l + 1] = LvlA(l)   \* (a multicast of the master to level 0 loops back)
SpecAgrees == \A i \in 1..N : \A p \in 1..5 :
                 T.A[T.phys[i][p + 1]] = PhysAddr(T.addrs[i], p, T.prefix, T.suffix, T.mcast)

\* ---- the walk over the implementation's own next-hop choices
VARIABLES si, di, ci, nh
tvars == <<si, di, ci, nh>>
TInit == si \in 1..N /\ di \in Dst /\ si # di /\ ci = si /\ nh = 0
HopOf(c, d) == T.ownN[T.tx[c][d]]            \* node that listens on the address c transmitted to
TNext == ci # di /\ T.tx[ci][di] # 0 /\ HopOf(ci, di) # 0
         /\ ci' = HopOf(ci, di) /\ nh' = nh + 1 /\ UNCHANGED <<si, di>>
TSpec == TInit /\ [][TNext]_tvars
C04_HopListens == ci # di => T.tx[ci][di] # 0 /\ HopOf(ci, di) # 0 /\ T.ownP[T.tx[ci][di]] >= 1
C04_Route      == nh <= 8 /\ (nh = 8 => ci = di)
C04_HopParentOrChild == (ci # di /\ HopOf(ci, di) # 0) =>
                          LET n == T.addrs[ci]  h == T.addrs[HopOf(ci, di)] IN IsChildOf(h, n) \/ IsChildOf(n, h)
C04_TreePath   == (ci # di /\ HopOf(ci, di) # 0) => T.addrs[HopOf(ci, di)] = NextHop(T.addrs[ci], T.addrs[di])
=============================================================================
