SPECIFICATION Spec
CONSTANTS
  Msgs <- MsgsThorough
  MaxCopies = 2
  MaxRecv = 8
INVARIANT C06_Genuine
INVARIANT C06_AtMostOnce
CHECK_DEADLOCK FALSE
