SPECIFICATION FairSpec
CONSTANTS
  ARC = 1
  MaxFR = 1
  MaxCalls = 2
  Algo = "refresh"
  Queued = FALSE
  Reload = TRUE
PROPERTY Termination
CHECK_DEADLOCK FALSE
