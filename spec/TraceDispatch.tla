----------------------------- MODULE TraceDispatch -----------------------------
(* Judges, vector by vector, what a real node did with ONE injected frame       *)
(* against NetDispatch!Outcome.  A vector: the node (cfg), the raw frame, what  *)
(* update() returned, the frames the application could read afterwards and the *)
(* packets the node put on air (physical address, payload, NO_ACK flag).        *)
(* Deviations are named after the listed clause they break (C05: a destination  *)
(* queues the message, a router forwards it unchanged toward the destination    *)
(* and keeps it from its own application; C13: exactly the delivering hop sends *)
(* one NETWORK_ACK; C14: a relay re-broadcasts once to the next level and still *)
(* queues); deviations on system traffic (ping, poll, address request/response  *)
(* passing, return value of update()) are reported as DRIFT, not as violations. *)
EXTENDS NetDispatch, Json, IOUtils, FiniteSets
V == JsonDeserialize(IOEnv.TRACE_FILE)
VARIABLE tid
OK == <<"ok", "">>
\* (the specification's transmissions also name the logical receiver; on air only address, payload and NO_ACK exist)
Strip(o) == [o EXCEPT !.tx = [i \in 1..Len(o.tx) |-> [phys |-> o.tx[i].phys, data |-> o.tx[i].data, noack |-> o.tx[i].noack]]]
\* kind "write": the first transmission of write(frame, traffic_direct) for a single-frame message and whether the call
\* waited for a NETWORK_ACK (the harness never sends one: waiting shows as a route_timeout spent)
WriteClause(v) ==
  LET h == Hdr(0, v.to, v.id, v.type, 0)
      want == Strip(WriteOutcome(v.cfg, h, v.msg, v.direct, v.prefix, v.suffix))
      got == [i \in 1..Len(v.sent) |-> [phys |-> v.sent[i].phys, data |-> v.sent[i].data, noack |-> v.sent[i].noack]] IN
  IF v.exc # "none" THEN <<"C05.ReturnTrue", "write() raised " \o v.exc>>
  ELSE IF (v.queued = 1) # want.queued THEN <<"C05.Delivered", "loop-back write: the frame must go straight into the own queue (and only then)">>
  ELSE IF Len(got) = 0 /\ Len(want.tx) = 0 THEN OK
  ELSE IF Len(got) = 0 THEN <<"C05.Delivered", "write() transmitted nothing">>
  ELSE IF Len(want.tx) = 0 THEN <<"C05.Delivered", "a loop-back write transmitted something">>
  ELSE IF got[1].data # want.tx[1].data THEN <<"C11.FrameIsHdrPlusMsg", "the frame on air is not the caller's header (origin filled in) followed by the message">>
  ELSE IF got[1].phys # want.tx[1].phys THEN <<"C04.HopParentOrChild", "first transmission goes to another physical address than the next hop's / the direct node's pipe 0">>
  ELSE IF got[1].noack # want.tx[1].noack THEN
       (IF v.direct = Auto THEN <<"C05.ReturnTrue", "a routed frame was sent without awaiting the radio acknowledgement">> ELSE <<"drift", "traffic_direct frame sent with an acknowledgement request">>)
  ELSE IF v.direct = Auto /\ v.waited # want.waits THEN
       <<"C13.WaitOnlyIfNeeded", IF v.waited THEN "write() waited for a NETWORK_ACK that nobody owes" ELSE "write() did not wait for the NETWORK_ACK of a routed ack-type frame">>
  ELSE IF v.direct # Auto /\ v.waited THEN <<"drift", "traffic_direct write waited for a NETWORK_ACK">>
  ELSE OK

Clause(v) ==
  IF v.k = "write" THEN WriteClause(v) ELSE
  LET short == Len(v.raw) < 8
      h == IF short THEN Hdr(0, 0, 0, 0, 0) ELSE UnpackHdr(v.raw)
      msg == IF short THEN <<>> ELSE SubSeq(v.raw, 9, Len(v.raw))
      c == v.cfg IN
  IF short \/ ~IsValid(h.from) \/ ~IsValid(h.to) \/ v.exc # "none" \/ ~InContract(c, h) THEN OK      \* C15's business
  ELSE
  LET want == Strip(Outcome(c, h, msg, v.prefix, v.suffix))
      got == [i \in 1..Len(v.sent) |-> [phys |-> v.sent[i].phys, data |-> v.sent[i].data, noack |-> v.sent[i].noack]]
      user == h.type <= 127
      other == h.to # c.addr /\ h.to # McastAddr
      sysPass == h.to = c.addr /\ h.type \in {TPing, TAddrResp, TAddrReq}
      dummy == 0 IN
  IF other /\ c.addr # Default THEN        \* a frame for somebody else at a node with a place in the tree
       IF v.queued # 0 THEN <<"C05.RouterForwards", "a frame for another node was handed to the relaying node's own application">>
       ELSE IF got = want.tx THEN (IF v.ret # want.ret THEN <<"drift", "update() returned " \o ToString(v.ret) \o " after forwarding">> ELSE OK)
       ELSE IF Len(got) = 0 THEN <<"C05.RouterForwards", "a frame for another node was not forwarded">>
       ELSE IF got[1] # want.tx[1] THEN
            (IF got[1].data # want.tx[1].data THEN <<"C05.RouterForwards", "the forwarded frame differs from the received one">>
             ELSE IF got[1].phys # want.tx[1].phys THEN <<"C04.HopParentOrChild", "forwarded to another physical address than the next hop's">>
             ELSE <<"C05.RouterForwards", "forwarded without requesting a radio acknowledgement">>)
       ELSE IF Len(got) > Len(want.tx) /\ Len(want.tx) = 1 THEN
            (IF got[2].data[7] = TNetAck THEN <<"C13.AckOnce", "a NETWORK_ACK was sent where none is due">>
             ELSE <<"C05.RouterForwards", "a frame for another node was forwarded " \o ToString(Len(got)) \o " times">>)
       ELSE IF Len(got) < Len(want.tx) THEN <<"C13.AckOnce", "the delivering hop sent no NETWORK_ACK to the origin">>
       ELSE IF Len(got) > Len(want.tx) THEN <<"C13.AckOnce", "more than one NETWORK_ACK sent">>
       ELSE <<"C13.AckOnce", "the NETWORK_ACK differs from the specified one (header, route or message)">>
  ELSE IF h.to = McastAddr /\ h.type # TPoll /\ user THEN
       IF (v.queued = 1) # want.queued THEN <<"C14.RelayOnce", "a received multicast frame was not queued for the node's own application">>
       ELSE IF got # want.tx THEN <<"C14.RelayOnce", "re-broadcast " \o ToString(Len(got)) \o " frame(s); specified: " \o ToString(Len(want.tx)) \o " to the next level, unchanged, unacknowledged">>
       ELSE IF v.ret # want.ret THEN <<"drift", "update() returned " \o ToString(v.ret) \o " for a multicast frame">>
       ELSE OK
  ELSE IF h.to = c.addr /\ user THEN
       IF v.queued # 1 THEN <<"C05.Delivered", "a user message addressed to this node was not queued">>
       ELSE IF Len(got) # 0 THEN <<"C05.Delivered", "a user message addressed to this node caused a transmission">>
       ELSE IF v.qhead # [from |-> h.from, to |-> h.to, id |-> h.id, type |-> h.type, msg |-> msg] THEN <<"C05.Delivered", "the queued frame differs from the received one">>
       ELSE IF v.ret # want.ret THEN <<"drift", "update() returned " \o ToString(v.ret) \o " for a queued user message">>
       ELSE OK
  ELSE IF (v.queued = 1) # want.queued \/ got # want.tx \/ v.ret # want.ret
       THEN <<"drift", "system traffic (type " \o ToString(h.type) \o "): queued/sent/returned " \o ToString(<<v.queued, Len(got), v.ret>>)
                        \o " specified " \o ToString(<<want.queued, Len(want.tx), want.ret>>)>>
  ELSE OK
TInit == tid \in 1..Len(V)
TNext == UNCHANGED tid
Report == Clause(V[tid])[1] # "ok" => PrintT("VERDICT " \o ToString(<<tid, 1, Clause(V[tid])[1], Clause(V[tid])[2]>>))
=============================================================================
