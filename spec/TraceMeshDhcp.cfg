SPECIFICATION TSpec
CONSTANTS
  Ids = {}
  Vias = {}
  MaxDepth = 0
INVARIANT Report
CHECK_DEADLOCK FALSE
