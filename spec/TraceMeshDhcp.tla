--------------------------- MODULE TraceMeshDhcp ---------------------------
(* Total trace monitor for C16 over observations of a real RF24Mesh master:   *)
(* dhcp_dict before/after each injected request / release / save+load and the *)
(* MESH_ADDR_RESPONSE frames seen on the simulated air.                       *)
EXTENDS MeshDhcp, NetFrame, Json, IOUtils
Traces == JsonDeserialize(IOEnv.TRACE_FILE)
VARIABLES tid, l, verdict, drift
tvars == <<vars, tid, l, verdict, drift>>
Tr == Traces[tid].ev
Prefix == Traces[tid].prefix
Suffix == Traces[tid].suffix

\* JSON table [[id, addr], ...] -> function over the ids it mentions
Ids_(s) == {s[k][1] : k \in 1..Len(s)}
Tab(s) == [i \in Ids_(s) |-> (CHOOSE k \in 1..Len(s) : s[k][1] = i) ]
Val(s, t, i) == IF i \in DOMAIN t THEN s[t[i]][2] ELSE NoAddr        \* t = Tab(s) maps id -> position
Fn(s) == LET t == Tab(s) IN [i \in DOMAIN t |-> s[t[i]][2]]
KeysUnique(s) == \A j, k \in 1..Len(s) : j # k => s[j][1] # s[k][1]
At(f, i) == IF i \in DOMAIN f THEN f[i] ELSE NoAddr

ExpectPhys(via) == IF via = DefaultAddr THEN PhysAddr(DefaultAddr, 0, Prefix, Suffix, TRUE)
                   ELSE PhysAddr(NextHop(0, via), 5, Prefix, Suffix, TRUE)
GoodReply(r, id, via, a) == /\ r.to = via /\ r.type = 128 /\ r.reserved = id
                            /\ r.payload = LE16(a) /\ r.phys = ExpectPhys(via)

ReqClause(e) ==
  LET b == Fn(e.before)  a == Fn(e.after)  id == e.id  via == e.via  all == DOMAIN b \cup DOMAIN a IN
  IF ~KeysUnique(e.after) \/ ~Injective(a) THEN <<"C16.Injective", "two ids share an address">>
  ELSE IF \E j \in all : j # id /\ At(a, j) # At(b, j) THEN <<"C16.SingleLease", "another id's lease changed">>
  ELSE IF At(a, id) # NoAddr /\ (At(a, id) # At(b, id) \/ Len(e.replies) > 0) /\ ~ValidLease(At(a, id), via, id, b)
       THEN <<"C16.ValidChild", "address is not a free valid child of the relaying node">>
  ELSE IF At(a, id) # At(b, id) /\ At(a, id) # NoAddr /\ ~(\E k \in 1..Len(e.replies) : GoodReply(e.replies[k], id, via, At(a, id)))
       THEN <<"C16.ReplyRoute", "no MESH_ADDR_RESPONSE toward the requester with its id and address">>
  ELSE IF \E k \in 1..Len(e.replies) : e.replies[k].type = 128 /\ ~GoodReply(e.replies[k], id, via, At(a, id))
       THEN <<"C16.ReplyRoute", "a MESH_ADDR_RESPONSE with wrong destination, id, address or physical address">>
  ELSE <<"ok", "">>
\* a request addressed to another contact, only routed through the master: it is passed along, never served here
RoutedClause(e) ==
  IF e.after # e.before THEN <<"C16.ValidChild", "the master leased an address for a request that was made to another node and only routed through it">>
  ELSE IF \E k \in 1..Len(e.replies) : e.replies[k].type = 128
       THEN <<"C16.ReplyRoute", "the master answered a request that was made to another node">>
  ELSE <<"ok", "">>
RelClause(e) ==
  LET b == Fn(e.before)  a == Fn(e.after)  all == DOMAIN b \cup DOMAIN a IN
  IF ~KeysUnique(e.after) \/ ~Injective(a) THEN <<"C16.Injective", "two ids share an address">>
  ELSE IF \E j \in DOMAIN a : a[j] = e.addr THEN <<"C16.ReleaseFrees", "released address still leased">>
  ELSE IF \E j \in all : At(b, j) # e.addr /\ At(a, j) # At(b, j) THEN <<"C16.ReleaseFrees", "release altered another lease">>
  ELSE <<"ok", "">>
\* tables are logged sorted by id, so equality of the sequences is equality of the tables
SaveLoadClause(e) == IF KeysUnique(e.loaded) /\ e.loaded = e.before /\ e.after = e.before
                     THEN <<"ok", "">> ELSE <<"C16.Persist", e.fmt>>
\* load into the same master: the saved pairs are back and no address is mapped twice
LoadClause(e) == LET a == Fn(e.after)  f == Fn(e.file) IN
  IF ~KeysUnique(e.after) \/ ~Injective(a) THEN <<"C16.Injective", "two ids share an address after load_dhcp()">>
  ELSE IF \E i \in DOMAIN f : At(a, i) # f[i] THEN <<"C16.Persist", "a saved lease is missing after load_dhcp()">>
  ELSE <<"ok", "">>
Expected(e) == LET b == Fn(e.before) al == Alloc(b, e.id, e.via) IN IF al = NoAddr THEN At(b, e.id) ELSE al

TInit == Init /\ tid \in 1..Len(Traces) /\ l = 1 /\ verdict = <<"ok", "">> /\ drift = 0
Step == /\ verdict[1] = "ok" /\ l <= Len(Tr) /\ l' = l + 1 /\ tid' = tid /\ UNCHANGED vars
        /\ LET e == Tr[l] IN
           /\ verdict' = CASE e.op = "hang" -> <<"C15.Bounded", "the master's update() did not return (virtual-time watchdog)">>
                             [] e.op = "raise" -> <<"C15.NoRaise", "the master's update() raised while serving a request">>
                             [] e.op = "req" -> ReqClause(e) [] e.op = "rel" -> RelClause(e) [] e.op = "routed" -> RoutedClause(e)
                           [] e.op = "saveload" -> SaveLoadClause(e)
                           [] e.op = "save" -> <<"ok", "">> [] e.op = "load" -> LoadClause(e)
           /\ drift' = IF e.op = "req" /\ At(Fn(e.after), e.id) # Expected(e) THEN drift + 1 ELSE drift
TSpec == TInit /\ [][Step]_tvars
Report == (verdict[1] # "ok" \/ l > Len(Tr)) => PrintT("VERDICT " \o ToString(<<tid, l - 1, verdict[1], verdict[2], drift>>))
=============================================================================
