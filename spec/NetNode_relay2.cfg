SPECIFICATION Spec
CONSTANTS
  Tree = {0, 1, 2, 9}
  Relays = {1, 2}
  NoMc = {}
  Types = {1}
  MaxWrites = 1
  MaxLoss = 0
  Concurrent = FALSE
  Redeliver = FALSE
  FreeTimeout = FALSE
INVARIANT C05_AtMostOnce
PROPERTY NoEarlyFail
CHECK_DEADLOCK FALSE
