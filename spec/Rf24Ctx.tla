------------------------------ MODULE Rf24Ctx ------------------------------
(* Property C09: several driver objects share one radio; each is used only    *)
(* inside its own `with` block.  Abstract model: the radio holds one          *)
(* configuration value, every object caches the value it last established.    *)
(* Enter(o) must put the radio back to what o established at the end of its   *)
(* previous block (or in its constructor), Exit powers down.                  *)
EXTENDS Integers, Sequences, FiniteSets, TLC
CONSTANTS Objs, Vals, MaxBlocks
VARIABLES radio,   \* [cfg, pwr, ce]
          cache,   \* what each object would program on entry
          est,     \* what each object last established (history variable: the property's reference)
          cur,     \* object whose block is open, or 0
          blocks
vars == <<radio, cache, est, cur, blocks>>
Init == /\ radio = [cfg |-> 0, pwr |-> FALSE, ce |-> FALSE]
        /\ cache = [o \in Objs |-> o]          \* each constructor established its own configuration
        /\ est = [o \in Objs |-> o] /\ cur = 0 /\ blocks = 0
Enter(o) == /\ cur = 0 /\ blocks < MaxBlocks /\ cur' = o /\ blocks' = blocks + 1
            /\ radio' = [cfg |-> cache[o], pwr |-> TRUE, ce |-> FALSE]
            /\ UNCHANGED <<cache, est>>
Set(v) == /\ cur # 0 /\ radio' = [radio EXCEPT !.cfg = v]
          /\ cache' = [cache EXCEPT ![cur] = v] /\ est' = [est EXCEPT ![cur] = v]
          /\ UNCHANGED <<cur, blocks>>
Exit == /\ cur # 0 /\ cur' = 0 /\ radio' = [radio EXCEPT !.pwr = FALSE, !.ce = FALSE]
        /\ UNCHANGED <<cache, est, blocks>>
Next == (\E o \in Objs : Enter(o)) \/ (\E v \in Vals : Set(v)) \/ Exit
Spec == Init /\ [][Next]_vars
C09_Restored == [][\A o \in Objs : Enter(o) => radio'.cfg = est[o]]_vars
C09_Exit     == [][cur # 0 /\ cur' = 0 => ~radio'.pwr /\ ~radio'.ce]_vars
C09_NoLeak   == [][\A o \in Objs : o # cur => est'[o] = est[o]]_vars
=============================================================================
