---------------------------- MODULE NetAddrWalk ----------------------------
(* C04 on the specification itself: every ordered pair is connected by NextHop in <= 8 hops *)
EXTENDS NetAddr
\* ---- the tree walk used on the specification itself (MC) : every pair is connected in <= 8 hops
VARIABLES src, dst, cur, hops
vars == <<src, dst, cur, hops>>
CONSTANT WalkNodes
Init == src \in WalkNodes /\ dst \in WalkNodes /\ src # dst /\ cur = src /\ hops = 0
Next == cur # dst /\ cur' = NextHop(cur, dst) /\ hops' = hops + 1 /\ UNCHANGED <<src, dst>>
Spec == Init /\ [][Next]_vars
RouteBound    == hops <= 8 /\ (hops = 8 => cur = dst)
HopParentOrChild == [][IsChildOf(cur', cur) \/ IsChildOf(cur, cur')]_vars
StaysValid    == IsNode(cur)
\* up to the common ancestor, then down: once a hop goes down, no later hop goes up
UpThenDown    == [][IsChildOf(cur', cur) => IsDesc(cur', dst) \/ cur' = dst]_vars
Reaches       == <>(cur = dst)
ASSUME Count781
=============================================================================
