SPECIFICATION Spec
CONSTANT WalkNodes <- Nodes
INVARIANT RouteBound
INVARIANT StaysValid
PROPERTY HopParentOrChild
PROPERTY UpThenDown
CHECK_DEADLOCK FALSE
