SPECIFICATION Spec
INVARIANT C18_TunedInOwnBlock
CONSTRAINT Depth
CHECK_DEADLOCK FALSE
