--------------------------- MODULE TraceNetFrame ---------------------------
(* C11 decided on vectors recorded from the code; TLC is the independent      *)
(* encoder / decoder.  One vector per initial state; only failures print.     *)
EXTENDS NetFrame, Json, IOUtils
V == JsonDeserialize(IOEnv.TRACE_FILE)
VARIABLE tid
H(j) == Hdr(j.from, j.to, j.id, j.type, j.reserved)

\* kind "hdr": fields f -> packed bytes p -> fields u parsed back by the code
HdrClause(v) == IF Len(v.p) # 8 \/ v.p # PackHdr(H(v.f)) THEN "C11.Pack"
                ELSE IF H(v.u) # H(v.f) \/ H(v.u) # UnpackHdr(v.p) THEN "C11.RoundTrip" ELSE "ok"
\* kind "frame": frame.pack() = header ++ message; unpack gives the message back
FrameClause(v) == IF v.p # PackFrame(H(v.f), v.msg) \/ v.umsg # v.msg \/ H(v.u) # H(v.f) THEN "C11.FrameIsHdrPlusMsg" ELSE "ok"
\* kind "short": a buffer of 0..7 bytes must be refused
ShortClause(v) == IF v.accepted THEN "C11.ShortRefused" ELSE "ok"
\* kind "write": frames observed on air for one write() of msg
WriteClause(v) == LET h == Hdr(v.from, v.to, v.id, v.type, v.res0)  r == Tmrh20Reassemble(v.air) IN
                  IF v.exc # "none" THEN "C11.StrType"          \* write() raised (a one-character string type assigned to the attribute)
                  ELSE IF \E k \in 1..Len(v.air) : Len(v.air[k]) > 32 THEN "C11.FrameSize"
                  ELSE IF v.air # Fragments(h, v.msg) THEN "C11.Fragments"
                  ELSE IF ~(r.ok /\ r.msg = v.msg /\ r.type = v.type /\ r.from = v.from /\ r.id = v.id) THEN "C11.Tmrh20"
                  ELSE IF v.type_after # v.type_before THEN "C11.TypeRestored" ELSE "ok"
\* kind "abort": a fragmented write() whose k-th fragment is never acknowledged: whatever went on air is part of the
\* reference fragment sequence, and the caller's header shows its original type again
AbortClause(v) == LET h == Hdr(v.from, v.to, v.id, v.type, v.res0)  ref == Fragments(h, v.msg) IN
                  IF v.ret THEN "C11.Fragments"      \* True although one of the reference fragments was never acknowledged: it was not sent
                  ELSE IF \E k \in 1..Len(v.air) : ~\E j \in 1..Len(ref) : v.air[k] = ref[j] THEN <<"C11.Fragments", "a frame on air is not one of the reference fragments">>[1]
                  ELSE IF v.type_after # v.type_before THEN "C11.TypeRestored" ELSE "ok"
Clause(v) == CASE v.kind = "abort" -> AbortClause(v) [] v.kind = "hdr" -> HdrClause(v) [] v.kind = "frame" -> FrameClause(v)
               [] v.kind = "short" -> ShortClause(v) [] v.kind = "write" -> WriteClause(v)
TInit == tid \in 1..Len(V)
TNext == UNCHANGED tid
Report == Clause(V[tid]) # "ok" => PrintT("VERDICT " \o ToString(<<tid, 1, Clause(V[tid]), V[tid].kind>>))
=============================================================================
