------------------------------- MODULE MeshJoin -------------------------------
(* L2 model of the RF24Mesh join protocol (property C17): unassigned nodes ask  *)
(* for an address either the master directly or through a connected relay;     *)
(* the master allocates with MeshDhcp!Alloc and answers; a response is heard    *)
(* by every unassigned node and accepted by the one whose ID it carries and who *)
(* is waiting for an address under that contact; the joiner then confirms the   *)
(* lease with a lookup of its new address before it considers itself joined.    *)
(* Requests and responses travel independently (free interleaving).             *)
(* BoundedDelay = TRUE : a joiner only times out when nothing of its request is *)
(*   in flight any more (loss-free medium, latencies far below the 225 ms wait) *)
(*   - the case C17 quantifies over: TLC proves distinct addresses / agreement. *)
(* BoundedDelay = FALSE: requests may outlive the timeout - TLC exhibits the    *)
(*   known weakness (a stale request re-allocates a node that joined elsewhere  *)
(*   and frees its address for a second node); recorded, not claimed.           *)
EXTENDS MeshDhcp
CONSTANTS Joiners,        \* node ids that want to join
          Relays,         \* addresses of already connected nodes that answer polls (level 1..3), master is always there
          BoundedDelay, MaxReq
VARIABLES phase,   \* phase[j] \in {"idle", "wait", "confirm", "joined"}
          contact, \* contact[j]: 0 = master (direct request), else a relay address
          addr,    \* addr[j]: address the node is using (DefaultAddr = unassigned)
          reqs,    \* requests in flight: set of [id, via]   (via = DefaultAddr for direct requests)
          resps,   \* responses in flight / audible: set of [id, addr, via]
          tab,     \* the master's table (function id -> address, NoAddr = none)
          nreq
jvars == <<phase, contact, addr, reqs, resps, tab, nreq>>
Via(c) == IF c = 0 THEN DefaultAddr ELSE c

JInit == /\ Init /\ phase = [j \in Joiners |-> "idle"] /\ contact = [j \in Joiners |-> 0] /\ addr = [j \in Joiners |-> DefaultAddr]
         /\ reqs = {} /\ resps = {} /\ tab = [i \in Joiners |-> NoAddr] /\ nreq = 0

\* an unassigned node polled a level, got an answer from contact c and asks it for an address
JRequest(j, c) == /\ phase[j] = "idle" /\ nreq < MaxReq /\ nreq' = nreq + 1
                 /\ phase' = [phase EXCEPT ![j] = "wait"] /\ contact' = [contact EXCEPT ![j] = c]
                 /\ reqs' = reqs \cup {[id |-> j, via |-> Via(c)]}
                 /\ UNCHANGED <<addr, resps, tab>>
\* the master handles a request (forwarded by the relay or received directly)
MasterHandle(r) == /\ r \in reqs /\ reqs' = reqs \ {r}
                   /\ LET a == Alloc(tab, r.id, r.via) IN
                      IF a = NoAddr THEN UNCHANGED <<tab, resps>>
                      ELSE /\ tab' = [tab EXCEPT ![r.id] = a] /\ resps' = resps \cup {[id |-> r.id, addr |-> a, via |-> r.via]}
                   /\ UNCHANGED <<phase, contact, addr, nreq>>
\* a waiting node hears a response with its ID whose address is a child of the contact it asked
Accept(j, p) == /\ phase[j] = "wait" /\ p \in resps /\ p.id = j /\ IsChildOf(p.addr, ViaNode(Via(contact[j])))
                /\ resps' = resps \ {p}
                /\ addr' = [addr EXCEPT ![j] = p.addr] /\ phase' = [phase EXCEPT ![j] = "confirm"]
                /\ UNCHANGED <<contact, reqs, tab, nreq>>
\* a response nobody is waiting for dies out (unassigned nodes ignore foreign or unexpected responses)
Fade(p) == /\ p \in resps /\ ~(phase[p.id] = "wait" /\ IsChildOf(p.addr, ViaNode(Via(contact[p.id]))))
           /\ resps' = resps \ {p} /\ UNCHANGED <<phase, contact, addr, reqs, tab, nreq>>
\* no response came within the wait: back to polling
Timeout(j) == /\ phase[j] = "wait"
              /\ (BoundedDelay => (~\E r \in reqs : r.id = j) /\ (~\E p \in resps : p.id = j))
              /\ phase' = [phase EXCEPT ![j] = "idle"] /\ UNCHANGED <<contact, addr, reqs, resps, tab, nreq>>
\* double check: lookup_node_id(own new address) at the master must give the own ID
Confirm(j) == /\ phase[j] = "confirm"
              /\ IF tab[j] = addr[j] /\ \A i \in Joiners : i # j => tab[i] # addr[j]
                 THEN phase' = [phase EXCEPT ![j] = "joined"] /\ addr' = addr
                 ELSE phase' = [phase EXCEPT ![j] = "idle"] /\ addr' = [addr EXCEPT ![j] = DefaultAddr]
              /\ UNCHANGED <<contact, reqs, resps, tab, nreq>>
JNext == /\ UNCHANGED vars
         /\ \/ \E j \in Joiners, c \in {0} \cup Relays : JRequest(j, c)
            \/ \E r \in reqs : MasterHandle(r)
            \/ \E j \in Joiners, p \in resps : Accept(j, p)
            \/ \E p \in resps : Fade(p)
            \/ \E j \in Joiners : Timeout(j) \/ Confirm(j)
JSpec == JInit /\ [][JNext]_<<vars, jvars>>

\* ---- C17 on the protocol
C17_Distinct == \A i, j \in Joiners : (i # j /\ phase[i] = "joined" /\ phase[j] = "joined") => addr[i] # addr[j]
C17_Recorded == \A j \in Joiners : (phase[j] = "joined" /\ (~\E r \in reqs : r.id = j)) => tab[j] = addr[j]
C17_ValidAddr == \A j \in Joiners : phase[j] = "joined" => IsNode(addr[j]) /\ addr[j] # 0 /\ addr[j] # DefaultAddr
C17_TableInjective == Injective(tab)
=============================================================================
