SPECIFICATION TSpec
CONSTANTS
  Pipes = {}
  Lens = {}
INVARIANT Report
CHECK_DEADLOCK FALSE
