INIT TInit
NEXT TNext
INVARIANT Emit
CHECK_DEADLOCK FALSE
