------------------------------ MODULE TraceInject ------------------------------
(* C15: vectors of frames injected over the simulated air into one real node  *)
(* (routing-only / network / mesh node / mesh master at levels 0..4) and what *)
(* update() did with them; plus the implementation's is_address_valid table.  *)
EXTENDS NetAddr, NetFrame, Json, IOUtils, FiniteSets
V == JsonDeserialize(IOEnv.TRACE_FILE)
VARIABLE tid
OK == <<"ok", "">>
Clause(v) ==
  IF v.k = "valid" THEN     \* a slice of the validity table: v.base .. v.base + Len(v.bits) - 1
     (LET bad == {i \in 1..Len(v.bits) : (v.bits[i] = 1) # IsValid(v.base + i - 1)} IN
      IF bad = {} THEN OK ELSE <<"C15.ValidIff", "is_address_valid(" \o ToString(v.base + (CHOOSE i \in bad : \A j \in bad : i <= j) - 1) \o ") is wrong">>)
  ELSE IF v.k = "seq" THEN      \* up to three frames waiting in the RX FIFO when update() is called (and again until it is empty)
     (LET Bad(r) == Len(r) < 8 \/ ~IsValid(UnpackHdr(r).from) \/ ~IsValid(UnpackHdr(r).to)
          nGood == Cardinality({i \in 1..Len(v.raws) : ~Bad(v.raws[i])}) IN
      IF v.exc = "Deaf" THEN <<"C07.Listening", "the node's radio does not take a packet sent to one of its own pipe addresses">>
      ELSE IF v.exc # "none" THEN <<"C15.NoRaise", "update() raised " \o v.exc \o " with several frames waiting">>
      ELSE IF v.left > 0 THEN <<"C15.DropShort", "a received payload was neither consumed nor discarded: it stays in the RX FIFO and blocks the frames behind it">>
      ELSE IF v.dt > v.bound THEN <<"C15.Bounded", ToString(v.dt) \o " us">>
      \* one update() call serves at most one answer that waits (first hop + route time-out, sent at most twice), however
      \* many frames wait behind it
      ELSE IF v.dtmax > v.ubound THEN <<"C15.Bounded", "a single update() took " \o ToString(v.dtmax) \o " us with several frames waiting">>
      ELSE IF v.queued > nGood THEN <<"C15.DropInvalid", "more frames queued than valid frames received">>
      ELSE IF nGood = 0 /\ v.ntx # 0 THEN <<"C15.DropInvalid", "only short / invalid frames received but something was transmitted">>
      ELSE IF \E i \in 1..Len(v.sent) : Len(v.sent[i]) > 32 \/ Bad(v.sent[i]) THEN <<"C15.DropInvalid", "a frame with invalid addresses was transmitted">>
      ELSE OK)
  ELSE
  LET short == Len(v.raw) < 8
      h == IF short THEN Hdr(0, 0, 0, 0, 0) ELSE UnpackHdr(v.raw)
      invalid == ~short /\ (~IsValid(h.from) \/ ~IsValid(h.to)) IN
  IF v.exc = "Deaf" THEN <<"C07.Listening", "the node's radio does not take a packet sent to one of its own pipe addresses">>
  ELSE IF v.exc # "none" THEN <<"C15.NoRaise", "update() raised " \o v.exc>>
  ELSE IF v.left > 0 THEN <<"C15.DropShort", "the received payload was neither consumed nor discarded: it stays in the RX FIFO and blocks later frames">>
  ELSE IF v.dt > v.bound THEN <<"C15.Bounded", ToString(v.dt) \o " us">>
  ELSE IF short /\ (v.queued # 0 \/ v.ntx # 0) THEN <<"C15.DropShort", "a frame shorter than a header was queued or retransmitted">>
  ELSE IF invalid /\ (v.queued # 0 \/ v.ntx # 0) THEN <<"C15.DropInvalid", "a frame with an invalid origin or destination was queued or retransmitted">>
  ELSE IF \E i \in 1..Len(v.sent) : Len(v.sent[i]) > 32 THEN <<"C15.DropInvalid", "oversize packet transmitted">>
  ELSE OK
TInit == tid \in 1..Len(V)
TNext == UNCHANGED tid
Report == Clause(V[tid])[1] # "ok" => PrintT("VERDICT " \o ToString(<<tid, 1, Clause(V[tid])[1], Clause(V[tid])[2]>>))
=============================================================================
