SPECIFICATION FairSpec
CONSTANTS
  ARC = 1
  MaxFR = 1
  MaxCalls = 2
  Algo = "refresh"
  Queued = TRUE
  Reload = TRUE
INVARIANT C02_TrueIffDone
INVARIANT C02_FalseIffExhausted
INVARIANT C02_OnlyOwnPayload
INVARIANT C02_QuietAfterReturn
INVARIANT C02_PeerOnce
PROPERTY Termination
CHECK_DEADLOCK FALSE
