------------------------------- MODULE TraceMesh -------------------------------
(* C17: mesh joins, lookups, release, check_connection and sends by node ID,   *)
(* observed in multi-node simulations of real RF24Mesh nodes with a master.    *)
(* Every mesh API return is an event with snapshots of the master's table and  *)
(* of every node's address; sends by ID are job windows (delivery).            *)
EXTENDS Network, Json, IOUtils
Traces == JsonDeserialize(IOEnv.TRACE_FILE)
VARIABLES tid, l, verdict
tvars == <<tid, l, verdict>>
T == Traces[tid]
OK == <<"ok", "">>
Idx(seq) == 1..Len(seq)
Unassigned == 2340
Tab(tb, id) == IF \E k \in Idx(tb) : tb[k][1] = id THEN tb[CHOOSE k \in Idx(tb) : tb[k][1] = id][2] ELSE -2
IdOf(tb, a) == IF \E k \in Idx(tb) : tb[k][2] = a THEN tb[CHOOSE k \in Idx(tb) : tb[k][2] = a][1] ELSE -2
AllowMc(nm) == T.nodes[CHOOSE i \in Idx(T.nodes) : T.nodes[i].name = nm].allow_mc
Listen(e) == Listening(T.projs[e.proj], e.addr, e.lvl, AllowMc(e.n), T.prefix, T.suffix)
Connected(e) == e.addr # Unassigned
Lossy == T.lossy
\* every ancestor of address a (up to the master) is currently held by some node: the tree route to the master exists
RECURSIVE Anc(_)
Anc(a) == IF a = 0 \/ ~IsNode(a) THEN {0} ELSE {Parent(a)} \cup Anc(Parent(a))
Held(addrs, a) == \E k \in Idx(addrs) : addrs[k][3] = a
PathOk(addrs, a) == IsNode(a) /\ \A x \in Anc(a) : Held(addrs, x)

MeshClause(e, later) ==      \* later: the master's table at the next quiescence (the release frame may still be under way at the return)
  IF e.exc # "none" THEN <<"C17.NoRaise", e.op \o " raised " \o e.exc>>
  ELSE IF ~Listen(e) THEN <<"C07.Listening", e.op \o "() returned without the radio listening">>
  ELSE IF e.op = "join" THEN
       (IF e.id = 0 THEN (IF e.res = 0 THEN OK ELSE <<"C17.JoinValid", "master's renew_address() must return 0">>)
        ELSE IF e.res = -999 THEN (IF Lossy THEN OK ELSE <<"C17.JoinInTime", "renew_address() returned None on a loss-free medium">>)
        ELSE IF e.t - e.t0 > e.timeout_ms * 1000 + 400000 THEN <<"C17.JoinInTime", "returned after " \o ToString(e.t - e.t0) \o " us">>
        ELSE IF ~IsNode(e.res) \/ e.res = 0 \/ e.res = Unassigned THEN <<"C17.JoinValid", "returned address " \o ToString(e.res) \o " is not a valid node address">>
        ELSE IF e.res # e.addr THEN <<"C17.JoinValid", "returned address is not the node's address">>
        ELSE IF \E k \in Idx(e.addrs) : e.addrs[k][1] # e.n /\ e.addrs[k][3] = e.res THEN <<"C17.JoinValid", "address also held by another connected node">>
        ELSE IF ~Lossy /\ Tab(e.table, e.id) # e.res THEN <<"C17.JoinValid", "master's table does not record the address under the node's ID">>
        ELSE OK)
  ELSE IF e.op = "lookup_address" THEN
       (LET want == IF e.arg = 0 THEN 0 ELSE IF ~Connected(e) THEN -2 ELSE IF ~PathOk(e.addrs, e.addr) THEN -1 ELSE Tab(e.table_before, e.arg) IN
        IF e.table # e.table_before THEN <<"C17.MasterUndisturbed", "a lookup changed the master's table">>
        ELSE IF e.res = want \/ (Lossy /\ e.res = -1) \/ (e.dups > 0 /\ e.res = -1) THEN OK    \* (an answer identical to the previous
                                                                     \* packet with the same 2-bit PID is filtered by the radio itself)
        ELSE <<"C17.Lookup", "lookup_address(" \o ToString(e.arg) \o ") = " \o ToString(e.res) \o ", expected " \o ToString(want)>>)
  ELSE IF e.op = "lookup_node_id" THEN
       (LET want == IF e.arg = -999 THEN e.id ELSE IF e.arg = 0 THEN 0 ELSE IF ~Connected(e) THEN -2
                    ELSE IF ~PathOk(e.addrs, e.addr) THEN -1 ELSE IdOf(e.table_before, e.arg) IN
        IF e.table # e.table_before THEN <<"C17.MasterUndisturbed", "a lookup changed the master's table">>
        ELSE IF e.res = want \/ (Lossy /\ e.res = -1) \/ (e.dups > 0 /\ e.res = -1) THEN OK
        ELSE <<"C17.Lookup", "lookup_node_id(" \o ToString(e.arg) \o ") = " \o ToString(e.res) \o ", expected " \o ToString(want)>>)
  ELSE IF e.op = "release" THEN
       (IF e.wasconn /\ ~Lossy /\ e.res # 1 /\ PathOk(e.addrs_before, e.addr_before) THEN <<"C17.Release", "release_address() of a connected node returned False">>
        ELSE IF e.res = 1 /\ e.addr # Unassigned THEN <<"C17.Release", "node did not return to the unassigned address">>
        ELSE IF e.res = 1 /\ ~Lossy /\ PathOk(e.addrs_before, e.addr_before) /\ Tab(later, e.id) # -2 THEN <<"C17.Release", "lease still in the master's table at the next quiescence">>
        ELSE OK)
  ELSE IF e.op = "check_connection" THEN
       (LET conn == Connected(e) /\ PathOk(e.addrs, e.addr) /\ (e.id = 0 \/ Tab(e.table, e.id) = e.addr) IN
        IF (e.res = 1) = conn \/ (Lossy /\ e.res = 0) THEN OK
        ELSE <<"C17.CheckConnection", "check_connection() = " \o ToString(e.res) \o " for a " \o (IF conn THEN "connected" ELSE "disconnected") \o " node">>)
  ELSE OK

\* send(node_id, ...) windows: delivered to the node that holds that ID
SendClause(w) ==
  LET c == w.call
      dst == {i \in Idx(T.nodes) : T.nodes[i].node_id = c.to /\ T.nodes[i].kind \in {"mesh", "meshnm", "master"}}
      known == Tab(c.table, c.to) # -2 \/ c.to = 0
      good == {i \in Idx(w.deqs) : \E d \in dst : w.deqs[i].n = T.nodes[d].name /\ w.deqs[i].type = c.type /\ w.deqs[i].msg = c.msg
                                                   /\ w.deqs[i]["from"] = c.src} IN
  IF w.ret.exc # "none" THEN <<"C17.NoRaise", "send() raised " \o w.ret.exc>>
  ELSE IF Lossy \/ ~PathOk(c.addrs, c.src) \/ (known /\ c.to # 0 /\ ~PathOk(c.addrs, Tab(c.table, c.to))) THEN OK
  ELSE IF ~known THEN (IF w.ret.res THEN <<"C17.Reachable", "send() to an unknown ID returned True">> ELSE OK)
  ELSE IF Cardinality(good) # 1 THEN <<"C17.Reachable", "message sent to node ID " \o ToString(c.to) \o " was delivered " \o ToString(Cardinality(good)) \o " times">>
  ELSE IF ~w.ret.res THEN <<"C17.Reachable", "delivered but send() returned False">>
  ELSE OK
RetsListen(w) == LET bad == {i \in Idx(w.rets) : ~Listening(T.projs[w.rets[i].proj], w.rets[i].addr, w.rets[i].lvl, AllowMc(w.rets[i].n), T.prefix, T.suffix)} IN
                 IF bad = {} THEN OK ELSE <<"C07.Listening", "a public return during a mesh send left a radio not listening">>
Crashes == IF Len(T.crashes) = 0 THEN OK ELSE <<"C17.NoRaise", "exception or hang in a node's task: " \o T.crashes[1].n>>

N1 == Len(T.mesh)
N2 == Len(T.wins)
Judge(k) == IF k <= N1 THEN <<MeshClause(T.mesh[k], IF k < N1 THEN T.mesh[k + 1].table_before ELSE T.mesh[k].table)>>
            ELSE IF k <= N1 + N2 THEN <<SendClause(T.wins[k - N1]), RetsListen(T.wins[k - N1])>>
            ELSE <<Crashes>>
TInit == tid \in 1..Len(Traces) /\ l = 1 /\ verdict = <<>>
Step == /\ l <= N1 + N2 + 1 /\ l' = l + 1 /\ tid' = tid /\ verdict' = SelectSeq(Judge(l), LAMBDA v : v[1] # "ok")
TSpec == TInit /\ [][Step]_tvars
Report == \A k \in 1..Len(verdict) : PrintT("VERDICT " \o ToString(<<tid, l - 1, verdict[k][1], verdict[k][2]>>))
=============================================================================
