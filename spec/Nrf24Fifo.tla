------------------------------ MODULE Nrf24Fifo ------------------------------
(* L0 model of the nRF24L01+ FIFOs, STATUS / FIFO_STATUS / OBSERVE_TX and the  *)
(* IRQ line (datasheet 8.4, 9.1), and the L1 meaning of the RF24 accessors     *)
(* (property C10).  A truth record is                                          *)
(*   [rx : Seq([pipe, data]), ntx : 0..3, dr, ds, df : BOOLEAN, arc : 0..15,   *)
(*    mask : [dr, ds, df : BOOLEAN]   (TRUE = event reaches the IRQ pin),      *)
(*    irq : BOOLEAN (pin asserted), last : STATUS byte most recently clocked   *)
(*    out to the driver]                                                       *)
EXTENDS Integers, Sequences, FiniteSets, TLC
Status(s) == (IF s.dr THEN 64 ELSE 0) + (IF s.ds THEN 32 ELSE 0) + (IF s.df THEN 16 ELSE 0)
             + 2 * (IF s.rx = <<>> THEN 7 ELSE Head(s.rx).pipe) + (IF s.ntx >= 3 THEN 1 ELSE 0)
IrqLine(s) == (s.dr /\ s.mask.dr) \/ (s.ds /\ s.mask.ds) \/ (s.df /\ s.mask.df)
\* decoding of a STATUS byte
StPipe(b) == (b \div 2) % 8
StBit(b, k) == (b \div (2^k)) % 2 = 1

\* ---- accessor results (what the driver must report), from the truth at the call / the last clocked STATUS
Available(s) == s.rx # <<>>
AnyLen(s)    == IF s.rx = <<>> THEN 0 ELSE Len(Head(s.rx).data)
FifoCode(s, tx) == IF tx THEN (IF s.ntx = 0 THEN 1 ELSE 0) + (IF s.ntx >= 3 THEN 2 ELSE 0)
                   ELSE (IF s.rx = <<>> THEN 1 ELSE 0) + (IF Len(s.rx) >= 3 THEN 2 ELSE 0)
FifoFlag(s, tx, empty) == IF tx THEN (IF empty THEN s.ntx = 0 ELSE s.ntx >= 3)
                          ELSE (IF empty THEN s.rx = <<>> ELSE Len(s.rx) >= 3)
\* ---- effects
AfterRead(s)  == IF s.rx = <<>> THEN s ELSE [s EXCEPT !.rx = Tail(s.rx), !.dr = FALSE]
AfterClear(s, a, b, c) == [s EXCEPT !.dr = IF a THEN FALSE ELSE s.dr, !.ds = IF b THEN FALSE ELSE s.ds,
                                    !.df = IF c THEN FALSE ELSE s.df]
AfterFlushRx(s) == [s EXCEPT !.rx = <<>>]
AfterFlushTx(s) == [s EXCEPT !.ntx = 0]
AfterMask(s, a, b, c) == [s EXCEPT !.mask = [dr |-> a, ds |-> b, df |-> c]]
\* observable part of a truth record (last / irq are derived or bookkeeping)
Core(s) == [rx |-> s.rx, ntx |-> s.ntx, dr |-> s.dr, ds |-> s.ds, df |-> s.df, mask |-> s.mask]

\* ---- small exhaustive instance: the chip-level invariants the accessors rely on
CONSTANTS Pipes, Lens
VARIABLES s
Init == s = [rx |-> <<>>, ntx |-> 0, dr |-> FALSE, ds |-> FALSE, df |-> FALSE, arc |-> 0,
             mask |-> [dr |-> TRUE, ds |-> TRUE, df |-> TRUE]]
Arrive(p, n) == Len(s.rx) < 3 /\ s' = [s EXCEPT !.rx = Append(s.rx, [pipe |-> p, data |-> [i \in 1..n |-> p]]), !.dr = TRUE]
Load == s.ntx < 3 /\ s' = [s EXCEPT !.ntx = s.ntx + 1]
Sent == s.ntx > 0 /\ ~s.df /\ s' = [s EXCEPT !.ntx = s.ntx - 1, !.ds = TRUE]
Fail == s.ntx > 0 /\ ~s.df /\ s' = [s EXCEPT !.df = TRUE]
Next == \/ \E p \in Pipes, n \in Lens : Arrive(p, n)
        \/ Load \/ Sent \/ Fail
        \/ s' = AfterRead(s) \/ s' = AfterFlushRx(s) \/ s' = AfterFlushTx(s)
        \/ \E a, b, c \in BOOLEAN : s' = AfterClear(s, a, b, c) \/ s' = AfterMask(s, a, b, c)
Spec == Init /\ [][Next]_s
FifoBounds == Len(s.rx) <= 3 /\ s.ntx \in 0..3
StatusShowsHead == StPipe(Status(s)) = (IF s.rx = <<>> THEN 7 ELSE Head(s.rx).pipe)
                   /\ StBit(Status(s), 0) = (s.ntx = 3)
ReadPopsOne == [][s' = AfterRead(s) /\ s.rx # <<>> => Len(s'.rx) = Len(s.rx) - 1 /\ s'.ds = s.ds /\ s'.df = s.df /\ s'.ntx = s.ntx]_s
=============================================================================
