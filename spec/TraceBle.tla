------------------------------- MODULE TraceBle -------------------------------
(* Vector monitor for C18 (advertise) and C19 (receive) with BleLink as the    *)
(* independent Core-spec reference.  One vector per initial state; failures    *)
(* print a VERDICT.                                                            *)
EXTENDS BleLink, Json, IOUtils
V == JsonDeserialize(IOEnv.TRACE_FILE)
VARIABLE tid
OK == <<"ok", "">>
Pad32(p) == p \o [i \in 1..(32 - Len(p)) |-> 0]
Flags == <<2, 1, 5>>

\* ---------------- C18: what advertise() loaded into the TX FIFO
Opt(v) == LET pa == IF v.show_pa THEN Ad(10, <<ByteOfSigned(v.pa)>>) ELSE <<>>
              nm == IF v.has_name THEN Ad(8, v.name) ELSE <<>> IN {pa \o nm, nm \o pa}
Free(v) == 18 - (IF v.has_name THEN Len(v.name) + 2 ELSE 0) - (IF v.show_pa THEN 3 ELSE 0) - Len(Flatten(v.chunks))
AdvClause(v) ==
  IF v.len_avail # Free(v) THEN <<"C18.LenAvailable", "len_available() = " \o ToString(v.len_avail) \o ", free = " \o ToString(Free(v))>>
  ELSE IF (v.exc = "ValueError") # (Free(v) < 0) THEN <<"C18.RaisesIffTooLong", "exc " \o v.exc \o " with free = " \o ToString(Free(v))>>
  ELSE IF Free(v) < 0 THEN (IF Len(v.payload) > 0 THEN <<"C18.RaisesIffTooLong", "payload loaded although it does not fit">> ELSE OK)
  ELSE IF v.exc # "none" THEN <<"C18.WellFormed", "advertise() raised " \o v.exc>>
  ELSE IF Len(v.payload) = 0 \/ Len(v.payload) > 32 THEN <<"C18.WellFormed", "no (or oversize) payload loaded">>
  ELSE LET d == Decode(Pad32(v.payload), ChIdx(v.rfch)) IN
       IF ChIdx(v.rfch) < 0 THEN <<"C18.SeedFollowsChannel", "radio not tuned to an advertising frequency">>
       ELSE IF ~d.ok THEN
            (IF \E c \in {37, 38, 39} : Decode(Pad32(v.payload), c).ok
             THEN <<"C18.SeedFollowsChannel", "packet is whitened for another channel than the one the radio is tuned to">>
             ELSE <<"C18.WellFormed", "does not de-whiten to a PDU with a valid CRC-24 (" \o d.why \o ")">>)
       ELSE IF d.hdr # 66 THEN <<"C18.WellFormed", "PDU header is not ADV_NONCONN_IND / TxAdd">>
       ELSE IF d.len < 6 \/ SubSeq(d.pdu, 3, 8) # v.mac THEN <<"C18.WellFormed", "AdvA is not the configured MAC">>
       ELSE IF ~(\E o \in Opt(v) : SubSeq(d.pdu, 9, Len(d.pdu)) = Flags \o o \o Flatten(v.chunks))
            THEN <<"C18.WellFormed", "advertising data is not flags + optional fields + the caller's chunks">>
       ELSE IF Len(v.payload) # Len(d.pdu) + 3 /\ \E i \in (Len(d.pdu) + 4)..Len(v.payload) : v.payload[i] # 0
            THEN <<"C18.WellFormed", "garbage after the CRC">>
       ELSE OK

\* ---------------- C19: what available()/read() made of 32 received bytes
LE16v(a, b) == a + 256 * b
S24(a, b, c) == LET u == a + 256 * b + 65536 * c IN IF u >= 8388608 THEN u - 16777216 ELSE u
\* reference interpretation of one AD structure -> normalised item [kind, v, b, pa]
Item(st) ==
  IF st.bad THEN [kind |-> "malformed", v |-> 0, b |-> st.data, pa |-> 0]
  ELSE IF st.type = 22 /\ Len(st.data) >= 2 THEN
       LET uuid == LE16v(st.data[1], st.data[2])  r == SubSeq(st.data, 3, Len(st.data)) IN
       IF uuid = 6153 /\ Len(r) >= 3 THEN [kind |-> "temp", v |-> S24(r[1], r[2], r[3]) * 10, b |-> <<>>, pa |-> 0]
       ELSE IF uuid = 6159 /\ Len(r) >= 1 THEN [kind |-> "battery", v |-> r[1], b |-> <<>>, pa |-> 0]
       ELSE IF uuid = 65194 /\ Len(r) >= 2 THEN [kind |-> "url", v |-> 0, b |-> SubSeq(r, 3, Len(r)), pa |-> SignedByte(r[2])]
       ELSE [kind |-> "raw", v |-> 0, b |-> <<st.type>> \o st.data, pa |-> 0]
  ELSE [kind |-> "raw", v |-> 0, b |-> <<st.type>> \o st.data, pa |-> 0]
IsMeta(st) == ~st.bad /\ st.type \in {8, 9, 10}     \* name and PA level are element attributes; everything else is data
Structs(pdu) == AdStructs(SubSeq(pdu, 9, Len(pdu)))
FullSize(st) == st.type = 22 =>
   /\ Len(st.data) >= 2
   /\ LET uuid == LE16v(st.data[1], st.data[2])  n == Len(st.data) - 2 IN
      (uuid = 6153 => n >= 3) /\ (uuid = 6159 => n >= 1) /\ (uuid = 65194 => n >= 2)
WellStructured(pdu) == \A i \in 1..Len(Structs(pdu)) : ~Structs(pdu)[i].bad /\ FullSize(Structs(pdu)[i])
DataItems(pdu) == LET ss == SelectSeq(Structs(pdu), LAMBDA st : ~IsMeta(st)) IN [i \in 1..Len(ss) |-> Item(ss[i])]
NameOf(pdu) == LET ss == SelectSeq(Structs(pdu), LAMBDA st : ~st.bad /\ st.type \in {8, 9}) IN
               IF ss = <<>> THEN <<-1>> ELSE ss[Len(ss)].data
PaOf(pdu) == LET ss == SelectSeq(Structs(pdu), LAMBDA st : ~st.bad /\ st.type = 10 /\ Len(st.data) = 1) IN
             IF ss = <<>> THEN 999 ELSE SignedByte(ss[Len(ss)].data[1])
\* an element's raw item may be reported with or without its leading length byte
SameItem(want, got) ==
  /\ want.kind = got.kind
  /\ CASE want.kind = "temp" -> (got.v - want.v <= 5 /\ want.v - got.v <= 5)
       [] want.kind = "battery" -> got.v = want.v
       [] want.kind = "url" -> got.pa = want.pa /\ got.b = want.b
       [] OTHER -> got.b = want.b \/ got.b = <<Len(want.b)>> \o want.b
SameSent(want, got) ==
  /\ want.kind = got.kind
  /\ CASE want.kind = "temp" -> (got.v - want.v <= 5 /\ want.v - got.v <= 5)
       [] want.kind = "battery" -> got.v = want.v
       [] want.kind = "url" -> got.pa = want.pa /\ got.s = want.s
       [] OTHER -> got.b = want.b \/ got.b = <<Len(want.b)>> \o want.b \/ want.b = <<Len(got.b)>> \o got.b
RxClause(v) ==
  LET d == Decode(v.payload, ChIdx(v.rfch)) IN
  IF v.exc = "NotListening" THEN <<"C19.Decodes", "the receiving object's radio did not take a packet sent on its channel and address">>
  ELSE IF v.exc # "none" THEN <<"C19.NoRaise", "available() raised " \o v.exc>>
  ELSE IF ~d.ok THEN (IF v.queued > 0 THEN <<"C19.RejectsInvalid", "queued a payload with inconsistent " \o d.why>> ELSE OK)
  ELSE IF d.rfu /\ v.queued = 0 THEN OK                       \* reserved length bits set: ignoring the packet is fine; if it is queued it must decode (6-bit length)
  ELSE IF d.len < 6 \/ d.hdr # 66 THEN OK                     \* not a non-connectable advertisement with an AdvA: either way
  ELSE IF v.queued # 1 THEN <<"C19.Decodes", "valid advertisement queued " \o ToString(v.queued) \o " times">>
  ELSE IF v.elem.mac # SubSeq(d.pdu, 3, 8) THEN <<"C19.Decodes", "MAC differs">>
  ELSE IF ~WellStructured(d.pdu) THEN OK                      \* malformed / truncated structures: only safety is demanded
  ELSE IF (IF v.elem.has_name THEN v.elem.name ELSE <<-1>>) # NameOf(d.pdu) THEN <<"C19.Decodes", "name differs">>
  ELSE IF (IF v.elem.has_pa THEN v.elem.pa ELSE 999) # PaOf(d.pdu) THEN <<"C19.Decodes", "PA level differs">>
  ELSE IF Len(v.elem.data) # Len(DataItems(d.pdu)) THEN <<"C19.Decodes", "number of data items differs">>
  ELSE IF \E i \in 1..Len(v.elem.data) : ~SameItem(DataItems(d.pdu)[i], v.elem.data[i]) THEN <<"C19.Decodes", "a service-data value differs from the wire">>
  ELSE IF v.has_sent /\ (Len(v.sent.data) # Len(v.elem.data) \/ \E i \in 1..Len(v.sent.data) : ~SameSent(v.sent.data[i], v.elem.data[i]))
       THEN <<"C19.Decodes", "decoded values differ from what was advertised">>
  ELSE IF v.has_sent /\ (v.sent.mac # v.elem.mac \/ v.sent.has_name # v.elem.has_name \/ v.sent.name # v.elem.name
                         \/ v.sent.has_pa # v.elem.has_pa \/ v.sent.pa # v.elem.pa)
       THEN <<"C19.Decodes", "MAC / name / PA level differ from what was advertised">>
  ELSE OK
\* read() order: elements come out in arrival order, each once
\* (read_elems / arrived_elems, when recorded: the decoded content of every element handed out by read() is what was decoded
\* when its packet arrived - elements waiting in the queue are not altered by packets that arrive later)
OrderClause(v) == IF v.read_macs # v.arrived_macs THEN <<"C19.ReadOrder", "read() order differs from arrival order">>
                  ELSE IF "read_elems" \in DOMAIN v /\ v.read_elems # v.arrived_elems
                       THEN <<"C19.Decodes", "an element read later no longer decodes to what its packet carried">>
                  ELSE OK

Clause(v) == CASE v.k = "adv" -> AdvClause(v) [] v.k = "rx" -> RxClause(v) [] v.k = "order" -> OrderClause(v)
TInit == tid \in 1..Len(V)
TNext == UNCHANGED tid
Report == Clause(V[tid])[1] # "ok" => PrintT("VERDICT " \o ToString(<<tid, 1, Clause(V[tid])[1], Clause(V[tid])[2]>>))
=============================================================================
