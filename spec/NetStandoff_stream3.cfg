SPECIFICATION Spec
CONSTANTS
  N = 3
  F = 2
  Tries = 2
  Mode = "stream"
INVARIANT C05_NoSilentLoss
CHECK_DEADLOCK FALSE
