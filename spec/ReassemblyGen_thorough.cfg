SPECIFICATION GSpec
CONSTANTS
  Msgs <- MsgsQuick
  MaxCopies = 2
  MaxRecv = 99
  MaxLen = 8
CONSTRAINT Depth
INVARIANT Emit
INVARIANT C06_Genuine
INVARIANT C06_AtMostOnce
CHECK_DEADLOCK FALSE
