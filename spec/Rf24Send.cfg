SPECIFICATION Spec
CONSTANTS
  ARC = 1
  MaxFR = 1
  MaxCalls = 3
  Algo = "refresh"
  Queued = FALSE
  Reload = TRUE
INVARIANT C02_TrueIffDone
INVARIANT C02_FalseIffExhausted
INVARIANT C02_OnlyOwnPayload
INVARIANT C02_QuietAfterReturn
INVARIANT C02_PeerOnce
CHECK_DEADLOCK FALSE
