-------------------------------- MODULE Link --------------------------------
(* L1 contract of the link layer between two compatibly configured radios    *)
(* (properties C01, C02, C20): what send()/write()/resend() must return and   *)
(* what the peer's read() must yield, stated over the GROUND TRUTH of the     *)
(* simulated air (which packets were emitted, delivered, acknowledged).       *)
(* Pure operators; bytes are integers 0..255.                                 *)
EXTENDS Integers, Sequences, FiniteSets, TLC, SequencesExt

PadTrunc(buf, n) == [i \in 1..n |-> IF i <= Len(buf) THEN buf[i] ELSE 0]
\* what goes on the air for `buf` under configuration c = [dyn, pl, ...]
OnAir(c, buf) == IF c.dyn THEN buf ELSE PadTrunc(buf, c.pl)
\* what the peer's read() must return: with dynamic payloads the bytes sent, otherwise exactly its own RX_PW bytes
Rejected(c, buf) == c.dyn /\ (Len(buf) = 0 \/ Len(buf) > 32)

\* air packets are records [data, fate, new (peer queued it), want_ack, has_ack, ack, ack_ok]
Carrying(air, data) == {i \in 1..Len(air) : air[i].data = data}
Acked(air, data)    == \E i \in Carrying(air, data) : air[i].ack_ok
Emitted(air, data)  == Carrying(air, data) # {}
\* the transmission is complete: acknowledged, or emitted when no acknowledgement is requested
Done(air, data)     == \E i \in Carrying(air, data) : air[i].ack_ok \/ ~air[i].want_ack
Attempts(c, fr)     == (1 + c.arc) * (1 + fr)
\* virtual-time bound (microseconds) for one blocking call
AirUs(c, n)  == (((1 + c.aw + n + c.crc) * 8 + 9) * 1000) \div c.kbps
CallBound(c, fr, n) == (1 + fr) * ((1 + c.arc) * (c.ard + AirUs(c, 32) + AirUs(c, n) + 400) + 600) + 500
Truthy(r) == (r.t = "bool" /\ r.v) \/ r.t = "bytes"
=============================================================================
