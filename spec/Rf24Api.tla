------------------------------ MODULE Rf24Api ------------------------------
(* L1 contract of the RF24 configuration / pipe API (properties C03, C08,     *)
(* C09, C20): for every public call, the register file the nRF24L01+ must     *)
(* hold afterwards (`Post`) and the value a getter must return (`Ret`), as     *)
(* documented in docs/core_api and the nRF24L01+ product specification.       *)
(* Written from the documentation, not from rf24.py.                          *)
(*                                                                            *)
(* A radio state is a record                                                  *)
(*   [c, aa, en, aw, retr, ch, rf, dyn, feat : 0..255, pw : Seq(6),           *)
(*    p0, p1, txa : Seq(5 bytes), p25 : Seq(4 bytes), ce : 0..1]              *)
(* (CONFIG, EN_AA, EN_RXADDR, SETUP_AW, SETUP_RETR, RF_CH, RF_SETUP, DYNPD,   *)
(*  FEATURE, RX_PW_P0-5, RX_ADDR_P0/P1, TX_ADDR, RX_ADDR_P2-5 byte, CE pin).  *)
(* A call is a record [op, t, v, ...] with explicit type tags because the    *)
(* Python API overloads bool / int / list arguments.                          *)
EXTENDS Integers, Sequences, FiniteSets, TLC, Bitwise, SequencesExt

Bit(v, b)            == (v \div (2^b)) % 2
SetField(v, mask, x) == (v & (255 - mask)) | (x & mask)
SetBit(v, b, on)     == SetField(v, 2^b, IF on THEN 2^b ELSE 0)
Clamp(lo, x, hi)     == IF x < lo THEN lo ELSE IF x > hi THEN hi ELSE x
Overlay(old, new)    == [i \in 1..5 |-> IF i <= Len(new) THEN new[i] ELSE old[i]]   \* short write keeps upper bytes
AW(s)                == s.aw + 2

\* ---- well-formedness of a register file (datasheet section 9: reserved bits, legal ranges)
WellFormed(s) ==
  /\ s.c < 128 /\ s.aa < 64 /\ s.en < 64 /\ s.aw <= 3 /\ s.ch <= 125 /\ s.dyn < 64 /\ s.feat < 8
  /\ Bit(s.rf, 6) = 0 /\ ~(Bit(s.rf, 5) = 1 /\ Bit(s.rf, 3) = 1)
  /\ \A p \in 1..6 : s.pw[p] <= 32

\* ---- per-pipe list forms: element i (0-based) < 0 leaves pipe i alone, indices > 5 ignored
ApplyList(v, lst) == FoldLeft(LAMBDA acc, i : IF i <= 6 /\ lst[i] >= 0 THEN SetBit(acc, i - 1, lst[i] # 0) ELSE acc,
                              v, [i \in 1..Len(lst) |-> i])
MaskArg(old, c) == CASE c.t = "bool" -> IF c.v THEN 63 ELSE 0
                     [] c.t = "int"  -> c.v & 63
                     [] c.t = "list" -> ApplyList(old, c.v)
WithDyn(s, d) == [s EXCEPT !.dyn = d, !.feat = SetBit(s.feat, 2, d # 0)]

RateBits(r) == CASE r = 1 -> 0 [] r = 2 -> 8 [] r = 250 -> 32
CrcBits(n)  == CASE n = 0 -> 0 [] n = 1 -> 8 [] n = 2 -> 12
ArdBits(us) == ((Clamp(250, us, 4000) - 250) \div 250) * 16
PaBits(dbm) == (3 - ((0 - dbm) \div 6)) * 2

\* ---- outcome of a call: the exception it must raise ("none" when it must succeed)
PipeOk(p) == p >= 0 /\ p <= 5
Exc(s, c) ==
  CASE c.op = "channel="    -> IF c.v >= 0 /\ c.v <= 125 THEN "none" ELSE "ValueError"
    [] c.op = "data_rate="  -> IF c.v \in {1, 2, 250} THEN "none" ELSE "ValueError"
    [] c.op = "pa_level="   -> IF c.v \in {-18, -12, -6, 0} THEN "none" ELSE "ValueError"   \* see AcceptReject below
    [] c.op \in {"set_auto_ack", "set_dynamic_payloads", "set_payload_length"}
                            -> IF c.pt = "none" \/ PipeOk(c.p) THEN "none" ELSE "IndexError"
    [] c.op \in {"get_auto_ack", "get_dynamic_payloads", "get_payload_length", "close_rx_pipe"}
                            -> IF PipeOk(c.v) THEN "none" ELSE "IndexError"
    [] c.op = "open_rx_pipe" -> IF ~PipeOk(c.p) THEN "IndexError" ELSE IF Len(c.v) = 0 THEN "ValueError"
                                ELSE IF Len(c.v) > 5 THEN "any" ELSE "none"
    [] c.op = "open_tx_pipe" -> IF Len(c.v) > 5 \/ Len(c.v) = 0 THEN "any" ELSE "none"
    [] c.op = "load_ack"     -> IF ~PipeOk(c.p) THEN "IndexError" ELSE IF c.n = 0 \/ c.n > 32 THEN "ValueError" ELSE "none"
    [] c.op = "address"      -> IF c.v > 5 THEN "IndexError" ELSE "none"
    [] OTHER -> "none"

\* ---- the register file after a successful call.  `u` is the user's pipe-0 intent:
\*      [open |-> BOOLEAN, addr |-> bytes]  (what open_rx_pipe(0, addr) / close_rx_pipe(0) last established)
InTx(s) == Bit(s.c, 1) = 1 /\ Bit(s.c, 0) = 0
Post(s, u, c) ==
  CASE c.op = "channel="   -> [s EXCEPT !.ch = c.v]
    [] c.op = "data_rate=" -> [s EXCEPT !.rf = SetField(s.rf, 40, RateBits(c.v))]
    [] c.op = "pa_level="  -> [s EXCEPT !.rf = SetField(s.rf, 7, PaBits(c.v) + (IF c.lna THEN 1 ELSE 0))]
    [] c.op = "crc="       -> [s EXCEPT !.c = SetField(s.c, 12, CrcBits(Clamp(0, c.v, 2)))]
    [] c.op = "address_length=" -> [s EXCEPT !.aw = IF c.v >= 3 /\ c.v <= 5 THEN c.v - 2 ELSE 0]
    [] c.op = "arc="       -> [s EXCEPT !.retr = SetField(s.retr, 15, Clamp(0, c.v, 15))]
    [] c.op = "ard="       -> [s EXCEPT !.retr = SetField(s.retr, 240, ArdBits(c.v))]
    [] c.op = "set_auto_retries" -> [s EXCEPT !.retr = ArdBits(c.v) + Clamp(0, c.n, 15)]
    [] c.op = "auto_ack="  -> [s EXCEPT !.aa = MaskArg(s.aa, c)]
    [] c.op = "set_auto_ack" -> [s EXCEPT !.aa = IF c.pt = "none" THEN (IF c.v THEN 63 ELSE 0) ELSE SetBit(s.aa, c.p, c.v)]
    [] c.op = "dynamic_payloads=" -> WithDyn(s, MaskArg(s.dyn, c))
    [] c.op = "set_dynamic_payloads" -> WithDyn(s, IF c.pt = "none" THEN (IF c.v THEN 63 ELSE 0) ELSE SetBit(s.dyn, c.p, c.v))
    [] c.op = "payload_length=" ->
         IF c.t = "int" THEN [s EXCEPT !.pw = [p \in 1..6 |-> Clamp(1, c.v, 32)]]
         ELSE [s EXCEPT !.pw = [p \in 1..6 |-> IF p <= Len(c.v) /\ c.v[p] > 0 THEN Clamp(1, c.v[p], 32) ELSE s.pw[p]]]
    [] c.op = "set_payload_length" ->
         IF c.pt = "none" THEN [s EXCEPT !.pw = [p \in 1..6 |-> Clamp(1, c.v, 32)]]
         ELSE [s EXCEPT !.pw[c.p + 1] = Clamp(1, c.v, 32)]
    [] c.op = "ack=" -> IF c.v THEN [s EXCEPT !.aa = SetBit(s.aa, 0, TRUE), !.dyn = SetBit(s.dyn, 0, TRUE),
                                              !.feat = SetField(s.feat, 6, 6)]
                        ELSE [s EXCEPT !.feat = SetBit(s.feat, 1, FALSE)]
    [] c.op = "allow_ask_no_ack=" -> [s EXCEPT !.feat = SetBit(s.feat, 0, c.v)]
    \* load_ack(): "if the ack attribute is not enabled this function enables it" - the configuration afterwards always lets the
    \* payload ride on an ACK (auto-ack and dynamic payloads on pipe 0, EN_DPL, EN_ACK_PAY); the TX FIFO is not register state
    [] c.op = "load_ack" -> [s EXCEPT !.aa = SetBit(s.aa, 0, TRUE), !.dyn = SetBit(s.dyn, 0, TRUE), !.feat = SetField(s.feat, 6, 6)]
    [] c.op = "interrupt_config" -> [s EXCEPT !.c = SetField(s.c, 112, (IF c.dr THEN 0 ELSE 64) + (IF c.ds THEN 0 ELSE 32)
                                                                       + (IF c.df THEN 0 ELSE 16))]
    [] c.op = "power=" -> [s EXCEPT !.c = SetBit(s.c, 1, c.v)]
    [] c.op = "open_rx_pipe" ->
         [s EXCEPT !.en = SetBit(s.en, c.p, TRUE),
                   !.p0 = IF c.p = 0 THEN Overlay(s.p0, c.v) ELSE s.p0,
                   !.p1 = IF c.p = 1 THEN Overlay(s.p1, c.v) ELSE s.p1,
                   !.p25 = IF c.p >= 2 THEN [s.p25 EXCEPT ![c.p - 1] = c.v[1]] ELSE s.p25]
    [] c.op = "close_rx_pipe" -> [s EXCEPT !.en = SetBit(s.en, c.v, FALSE)]
    [] c.op = "open_tx_pipe" ->
         \* TX address always.  With auto-ack on pipe 0 - and only then - RX pipe 0 is appropriated with the TX address
         \* (docs: "Be sure to configure auto_ack for data pipe 0 before calling open_tx_pipe()"); in TX mode it must also
         \* be open so that the ACK is received (C08.TxAck).
         IF Bit(s.aa, 0) = 1
         \* (a short address alters the low bytes of TX_ADDR; pipe 0 gets the WHOLE resulting TX address, else no ACK matches)
         THEN [s EXCEPT !.txa = Overlay(s.txa, c.v), !.p0 = Overlay(s.txa, c.v),
                        !.en = IF InTx(s) THEN SetBit(s.en, 0, TRUE) ELSE s.en]
         ELSE [s EXCEPT !.txa = Overlay(s.txa, c.v)]
    [] c.op = "listen=" ->
         IF c.v THEN    \* enter RX: pipe 0 back on the user's address, or closed (C08.RxP0); CE high
            [s EXCEPT !.c = SetField(s.c, 3, 3), !.ce = 1,
                      !.p0 = IF u.open THEN u.addr ELSE s.p0,
                      !.en = SetBit(s.en, 0, u.open)]
         ELSE           \* enter TX: pipe 0 enabled when auto-ack needs it; CE low
            [s EXCEPT !.c = SetField(s.c, 3, 2), !.ce = 0,
                      !.en = IF Bit(s.aa, 0) = 1 THEN SetBit(s.en, 0, TRUE) ELSE s.en]
    \* carrier-wave test (nRF24L01+): power-cycled into TX mode, CONT_WAVE and PLL_LOCK set, CE high; stopping powers
    \* down with CE low and clears both bits.  listen = False is part of it, so pipe 0 follows the TX-mode rule.
    [] c.op = "start_carrier_wave" ->
         [s EXCEPT !.c = SetField(s.c, 3, 2), !.rf = SetField(s.rf, 144, 144), !.ce = 1,
                   !.en = IF Bit(s.aa, 0) = 1 THEN SetBit(s.en, 0, TRUE) ELSE s.en]
    [] c.op = "stop_carrier_wave" -> [s EXCEPT !.c = SetBit(s.c, 1, FALSE), !.rf = SetField(s.rf, 144, 0), !.ce = 0]
    [] OTHER -> s          \* getters and everything else leave the configuration alone

\* calls whose register effect is deliberately left open by the documentation: the observed value is accepted
\* for the listed fields only (named deviations, DESIGN.md section 6/C03)
FreeFields(s, u, c) ==
  CASE c.op = "open_tx_pipe" /\ Bit(s.aa, 0) = 1 /\ ~InTx(s) -> {"en"}   \* outside TX mode pipe 0 may already be opened or not
    [] c.op = "listen=" /\ ~c.v /\ Bit(s.aa, 0) = 0 -> {"en"}
    [] c.op = "start_carrier_wave" /\ Bit(s.aa, 0) = 0 -> {"en"}
    [] OTHER -> {}

\* ---- getters (value in effect, decoded from the register file)
Ret(s, c) ==
  CASE c.op = "channel" -> s.ch
    [] c.op = "data_rate" -> IF Bit(s.rf, 5) = 1 THEN 250 ELSE IF Bit(s.rf, 3) = 1 THEN 2 ELSE 1
    [] c.op = "pa_level" -> (3 - ((s.rf \div 2) % 4)) * (0 - 6)
    [] c.op = "is_lna_enabled" -> Bit(s.rf, 0) = 1
    [] c.op = "crc" -> IF s.aa # 0 THEN (IF Bit(s.c, 2) = 1 THEN 2 ELSE 1)
                       ELSE IF Bit(s.c, 3) = 0 THEN 0 ELSE IF Bit(s.c, 2) = 1 THEN 2 ELSE 1
    [] c.op = "address_length" -> AW(s)
    [] c.op = "arc" -> s.retr % 16
    [] c.op = "ard" -> (s.retr \div 16) * 250 + 250
    [] c.op = "get_auto_retries" -> <<(s.retr \div 16) * 250 + 250, s.retr % 16>>
    [] c.op = "auto_ack" -> s.aa
    [] c.op = "get_auto_ack" -> Bit(s.aa, c.v) = 1
    [] c.op = "dynamic_payloads" -> s.dyn
    [] c.op = "get_dynamic_payloads" -> Bit(s.dyn, c.v) = 1
    [] c.op = "payload_length" -> s.pw[1]
    [] c.op = "get_payload_length" -> s.pw[c.v + 1]
    [] c.op = "ack" -> (s.feat & 6) = 6 /\ Bit(s.aa, 0) = 1 /\ Bit(s.dyn, 0) = 1
    [] c.op = "allow_ask_no_ack" -> Bit(s.feat, 0) = 1
    [] c.op = "power" -> Bit(s.c, 1) = 1
    [] c.op = "listen" -> Bit(s.c, 1) = 1 /\ Bit(s.c, 0) = 1
    [] c.op = "address" -> IF c.v < 0 THEN SubSeq(s.txa, 1, 5)
                           ELSE IF c.v = 0 THEN s.p0 ELSE IF c.v = 1 THEN s.p1
                           ELSE <<s.p25[c.v - 1]>> \o SubSeq(s.p1, 2, 5)
IsGetter(c) == c.op \in {"channel", "data_rate", "pa_level", "is_lna_enabled", "crc", "address_length", "arc", "ard",
                         "get_auto_retries", "auto_ack", "get_auto_ack", "dynamic_payloads", "get_dynamic_payloads",
                         "payload_length", "get_payload_length", "ack", "allow_ask_no_ack", "power", "listen", "address"}

\* ---- the user's pipe-0 intent after a call
Intent(s, u, c, exc) ==
  IF exc # "none" THEN u
  ELSE IF c.op = "open_rx_pipe" /\ c.p = 0 THEN [open |-> TRUE, addr |-> Overlay(s.p0, c.v)]   \* the image that call produced
  ELSE IF c.op = "close_rx_pipe" /\ c.v = 0 THEN [open |-> FALSE, addr |-> <<>>]
  ELSE u

\* registers an attribute owns (C03.Frame): a call may write only these
Owner(c) ==
  CASE c.op \in {"channel="} -> {"ch"}
    [] c.op \in {"data_rate=", "pa_level="} -> {"rf"}
    [] c.op \in {"crc=", "interrupt_config", "power="} -> {"c"}
    [] c.op = "address_length=" -> {"aw"}
    [] c.op \in {"arc=", "ard=", "set_auto_retries"} -> {"retr"}
    [] c.op \in {"auto_ack=", "set_auto_ack"} -> {"aa"}
    [] c.op \in {"dynamic_payloads=", "set_dynamic_payloads"} -> {"dyn", "feat"}
    [] c.op \in {"payload_length=", "set_payload_length"} -> {"pw"}
    [] c.op = "ack=" -> {"aa", "dyn", "feat"}
    [] c.op = "allow_ask_no_ack=" -> {"feat"}
    [] c.op = "load_ack" -> {"aa", "dyn", "feat"}
    [] c.op = "open_rx_pipe" -> {"en", "p0", "p1", "p25"}
    [] c.op = "close_rx_pipe" -> {"en"}
    [] c.op = "open_tx_pipe" -> {"txa", "p0", "en"}
    [] c.op = "listen=" -> {"c", "ce", "p0", "en"}
    [] c.op \in {"start_carrier_wave", "stop_carrier_wave"} -> {"c", "rf", "ce", "en"}
    [] OTHER -> {}
Fields == {"c", "aa", "en", "aw", "retr", "ch", "rf", "dyn", "feat", "pw", "p0", "p1", "p25", "txa", "ce"}

\* state right after construction + first context entry (documented defaults)
Fresh == [c |-> 14, aa |-> 63, en |-> 0, aw |-> 3, retr |-> 95, ch |-> 76, rf |-> 7, dyn |-> 63, feat |-> 5,
          pw |-> <<32, 32, 32, 32, 32, 32>>, p0 |-> <<231, 231, 231, 231, 231>>, p1 |-> <<194, 194, 194, 194, 194>>,
          p25 |-> <<195, 196, 197, 198>>, txa |-> <<231, 231, 231, 231, 231>>, ce |-> 0]
\* a (new) driver object constructed on a radio that may still hold another session's configuration (MCU reset, script
\* re-run: the chip was not power-cycled): every register the driver owns goes to its documented default, the addresses
\* stay whatever the chip holds (they "persist until changed or power to the nRF24L01 is discontinued"), and the radio is
\* left powered down with CE low.  This must hold for the plus and the non-plus variant (whose FEATURE/DYNPD registers are
\* locked behind the ACTIVATE command and must end up unlocked, else every later write to them is ignored).
Constructed(s) == [Fresh EXCEPT !.c = 12, !.p0 = s.p0, !.p1 = s.p1, !.p25 = s.p25, !.txa = s.txa]
NoIntent == [open |-> FALSE, addr |-> <<>>]
RetTag(c) == CASE c.op \in {"is_lna_enabled", "get_auto_ack", "get_dynamic_payloads", "ack", "allow_ask_no_ack", "power", "listen"} -> "bool"
               [] c.op \in {"get_auto_retries", "address"} -> "list"
               [] OTHER -> "int"
=============================================================================
