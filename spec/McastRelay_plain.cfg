SPECIFICATION Spec
CONSTANTS
  F = 6
  Relay = FALSE
  Ps = {5, 6}
  Rs = {2, 3, 4}
  Ds = {0, 6, 12, 18, 24, 30, 36, 42}
  Xs = {8, 10, 12}
INVARIANT C14_NoFragmentLost
INVARIANT C14_Received
INVARIANT C14_RelayedAll
CHECK_DEADLOCK FALSE
