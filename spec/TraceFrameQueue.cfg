SPECIFICATION TSpec
CONSTANTS
  Frames <- FramesQuick
  MaxSizes = {0}
  MaxLen = 0
INVARIANT Report
CHECK_DEADLOCK FALSE
