------------------------------- MODULE Network -------------------------------
(* L1 contract of the RF24Network layer over one job window (properties C05,  *)
(* C07, C13, C14): a window is everything the simulation recorded between the *)
(* start of one scripted API call (made at quiescence) and the next:          *)
(*   call  : the API call (write / multicast / ...), its arguments            *)
(*   ret   : its return (result, exception, duration)                         *)
(*   rets  : every public return in the window: node, current node address,   *)
(*           multicast level, index of the TRUE radio state                   *)
(*   deqs  : frames the applications dequeued (node, from, to, type, msg)     *)
(*   pkts  : packets on air with ground truth (src node, 5-byte address,      *)
(*           payload, who received it on which pipe, ACKed or not)            *)
(* Pure operators over such records; NetAddr / NetFrame supply addressing and *)
(* wire formats.                                                              *)
EXTENDS NetAddr, NetFrame

\* ---------------- C07: the listening state
Listening(p, addr, lvl, allowMc, prefix, suffix) ==
  /\ Bit2(p.c, 1) /\ Bit2(p.c, 0) /\ p.ce = 1
  /\ p.en = 63 /\ p.aa = 62 /\ p.dyn = 63 /\ Bit2(p.feat, 2)
  /\ p.p1 = PhysAddr(addr, 1, prefix, suffix, allowMc)
  /\ \A k \in 2..5 : p.p25[k - 1] = PhysAddr(addr, k, prefix, suffix, allowMc)[1]
  /\ p.p0 = (IF allowMc THEN (IF lvl = 0 THEN PhysAddr(0, 0, prefix, suffix, TRUE)
                              ELSE IF lvl \in 1..4 THEN PhysAddr(LevelAddr(lvl), 0, prefix, suffix, TRUE)
                              ELSE <<>>)        \* no such level: the node reports a multicast level nobody can address
             ELSE PhysAddr(addr, 0, prefix, suffix, FALSE))

\* ---------------- frames on air
HdrOf(pkt) == UnpackHdr(pkt.data)
IsFrame(pkt) == Len(pkt.data) >= 8
NetAckType == 193
UserFrames(pkts) == SelectSeq(pkts, LAMBDA p : IsFrame(p) /\ HdrOf(p).type # NetAckType)
NetAcks(pkts) == SelectSeq(pkts, LAMBDA p : IsFrame(p) /\ HdrOf(p).type = NetAckType)
IsAckType(t) == t > 64 /\ t < 192
\* number of hops of the tree route
RECURSIVE Hops(_, _)
Hops(s, d) == IF s = d THEN 0 ELSE 1 + Hops(NextHop(s, d), d)
=============================================================================
