INIT Init
NEXT Next
INVARIANT RoundTrip
INVARIANT OneBitDetected
CHECK_DEADLOCK FALSE
