------------------------------ MODULE NetStandoff ------------------------------
(* L2 design model behind the open C05 finding: a fragmented message routed     *)
(* along a chain of nodes 1 (origin) .. N (destination).                        *)
(* What the code does (network/mixins.py):                                      *)
(*  - a node is either listening (RX) or transmitting ONE frame to a neighbour   *)
(*    (TX, deaf meanwhile); a transmission succeeds iff the neighbour is in RX   *)
(*    and has FIFO room; after a bounded number of failed attempts the frame is  *)
(*    given up (dropped) and the node listens again;                             *)
(*  - fragment types 148..150 are NETWORK_ACK types, so the node that delivers   *)
(*    a fragment to the destination (node N-1) sends a NETWORK_ACK back toward   *)
(*    the origin for EVERY fragment;                                             *)
(*  - Mode = "stream": the origin sends the next fragment as soon as the first   *)
(*    hop accepted the previous one (this library);                              *)
(*    Mode = "wait":   the origin listens until the NETWORK_ACK for the fragment *)
(*    arrived before it sends the next one (TMRh20's RF24Network).               *)
(* The medium is loss-free.  TLC shows: in "stream" mode a behaviour exists in   *)
(* which a fragment is dropped although every hop did what the code does (the    *)
(* forwarder of fragment k+1 and the sender of the NETWORK_ACK for fragment k    *)
(* face each other in TX); in "wait" mode no frame is ever dropped.              *)
EXTENDS Integers, Sequences, FiniteSets, TLC
CONSTANTS N,        \* nodes in the chain (N - 1 hops)
          F,        \* fragments of the message
          Tries,    \* failed attempts before a frame is given up
          Mode
Nodes == 1..N
Frag(f) == [kind |-> "frag", f |-> f]
Ack(f)  == [kind |-> "ack", f |-> f]

VARIABLES
  mode,      \* mode[n] \in {"rx", "tx"}
  out,       \* out[n]: the frame node n is transmitting (or <<>>), as <<frame, target, tries left>>
  todo,      \* todo[n]: frames node n still has to transmit after the current one (the NETWORK_ACK after a delivery)
  inbox,     \* inbox[n]: RX FIFO (at most 3 frames)
  nextFrag,  \* next fragment the origin will send (F + 1 = done)
  waiting,   \* origin waits for the NETWORK_ACK of this fragment (0 = not waiting; "wait" mode only)
  delivered, \* fragments that reached the destination
  dropped    \* frames given up somewhere
vars == <<mode, out, todo, inbox, nextFrag, waiting, delivered, dropped>>

Init == /\ mode = [n \in Nodes |-> "rx"] /\ out = [n \in Nodes |-> <<>>] /\ todo = [n \in Nodes |-> <<>>]
        /\ inbox = [n \in Nodes |-> <<>>] /\ nextFrag = 1 /\ waiting = 0 /\ delivered = {} /\ dropped = {}

Start(n, frame, target) == /\ mode' = [mode EXCEPT ![n] = "tx"] /\ out' = [out EXCEPT ![n] = <<frame, target, Tries>>]

\* the origin sends the next fragment when it is idle (and, in "wait" mode, not waiting for a NETWORK_ACK)
OriginSend == /\ nextFrag <= F /\ mode[1] = "rx" /\ out[1] = <<>> /\ waiting = 0 /\ inbox[1] = <<>>
              /\ Start(1, Frag(nextFrag), 2)
              /\ UNCHANGED <<todo, inbox, nextFrag, waiting, delivered, dropped>>

\* a listening node takes the next frame out of its FIFO
Process(n) ==
  /\ mode[n] = "rx" /\ out[n] = <<>> /\ inbox[n] # <<>>
  /\ LET fr == Head(inbox[n]) IN
     /\ inbox' = [inbox EXCEPT ![n] = Tail(inbox[n])]
     /\ IF fr.kind = "frag" /\ n = N THEN       \* destination: queue the fragment for reassembly
             /\ delivered' = delivered \cup {fr.f} /\ UNCHANGED <<mode, out, todo, waiting>>
        ELSE IF fr.kind = "frag" THEN           \* router: forward down; the last router owes a NETWORK_ACK afterwards
             /\ Start(n, fr, n + 1)
             /\ todo' = [todo EXCEPT ![n] = IF n = N - 1 THEN <<Ack(fr.f)>> ELSE <<>>]
             /\ UNCHANGED <<waiting, delivered>>
        ELSE IF n = 1 THEN                      \* origin: a NETWORK_ACK arrived
             /\ waiting' = (IF waiting = fr.f THEN 0 ELSE waiting) /\ UNCHANGED <<mode, out, todo, delivered>>
        ELSE /\ Start(n, fr, n - 1) /\ UNCHANGED <<todo, waiting, delivered>>      \* router: forward the NETWORK_ACK up
  /\ UNCHANGED <<nextFrag, dropped>>

\* one transmission attempt of node n
Attempt(n) ==
  /\ mode[n] = "tx" /\ out[n] # <<>>
  /\ LET fr == out[n][1]  m == out[n][2]  left == out[n][3]
         ok == mode[m] = "rx" /\ Len(inbox[m]) < 3
         \* what the node does once this frame is done (delivered or given up): the owed NETWORK_ACK, or listen again
         Finish(acked) ==
           IF acked /\ todo[n] # <<>>
           THEN /\ out' = [out EXCEPT ![n] = <<Head(todo[n]), n - 1, Tries>>] /\ todo' = [todo EXCEPT ![n] = Tail(todo[n])]
                /\ mode' = mode
           ELSE /\ out' = [out EXCEPT ![n] = <<>>] /\ todo' = [todo EXCEPT ![n] = <<>>] /\ mode' = [mode EXCEPT ![n] = "rx"]
     IN
     IF ok THEN
        /\ inbox' = [inbox EXCEPT ![m] = Append(inbox[m], fr)]
        /\ Finish(TRUE)
        /\ nextFrag' = (IF n = 1 THEN nextFrag + 1 ELSE nextFrag)
        /\ waiting' = (IF n = 1 /\ Mode = "wait" /\ N > 2 THEN fr.f ELSE waiting)
        /\ UNCHANGED <<delivered, dropped>>
     ELSE IF left > 1 THEN
        /\ out' = [out EXCEPT ![n] = <<fr, m, left - 1>>]
        /\ UNCHANGED <<mode, todo, inbox, nextFrag, waiting, delivered, dropped>>
     ELSE       \* given up: the frame is dropped (the origin aborts the message)
        /\ dropped' = dropped \cup {<<fr.kind, fr.f, n>>}
        /\ Finish(FALSE)
        /\ nextFrag' = (IF n = 1 THEN F + 1 ELSE nextFrag)
        /\ UNCHANGED <<inbox, waiting, delivered>>

\* "wait" mode: the origin gives up waiting (route_timeout) - it then aborts the message
GiveUpWaiting == /\ Mode = "wait" /\ waiting # 0 /\ waiting' = 0 /\ nextFrag' = F + 1
                 /\ dropped' = dropped \cup {<<"timeout", waiting, 1>>}
                 /\ UNCHANGED <<mode, out, todo, inbox, delivered>>
\* it may only time out when its NETWORK_ACK can no longer come: nothing of the message is in flight any more
Quiet == \A n \in Nodes : out[n] = <<>> /\ inbox[n] = <<>> /\ todo[n] = <<>>

Next == OriginSend \/ (\E n \in Nodes : Process(n) \/ Attempt(n)) \/ (Quiet /\ GiveUpWaiting)
Spec == Init /\ [][Next]_vars /\ WF_vars(Next)

\* ---- what C05 needs from the design
NoFrameDropped == dropped = {}
\* the origin "returned True" (every fragment accepted by the first hop) yet the message is incomplete for good
SilentLoss == nextFrag = F + 1 /\ Quiet /\ \A x \in dropped : x[3] # 1 /\ x[1] # "timeout"
C05_NoSilentLoss == SilentLoss => delivered = 1..F
AllDeliveredEventually == <>(delivered = 1..F \/ \E x \in dropped : x[3] = 1 \/ x[1] = "timeout")
=============================================================================
