----------------------------- MODULE Reassembly -----------------------------
(* C06 model: environment (fault-pattern generator) + reference reassembler,  *)
(* checked against the clauses defined in ReassemblyOps.                      *)
EXTENDS ReassemblyOps

CONSTANTS Msgs, MaxCopies, MaxRecv
VARIABLES cache,      \* reference reassembler: [valid, from, id, expect, body]
          q,          \* frames waiting for the application (complete messages only)
          delivered,  \* what the application has dequeued so far
          rcv,        \* how often the medium delivered each fragment
          nrecv
vars == <<cache, q, delivered, rcv, nrecv>>

NoCache == [valid |-> FALSE, from |-> 0, id |-> 0, expect |-> 0, body |-> <<>>]
Init == /\ cache = NoCache /\ q = <<>> /\ delivered = <<>> /\ nrecv = 0
        /\ rcv = [x \in {<<m, k>> : m \in Msgs, k \in 1..7} |-> 0]

QKey(f) == <<f.from, f.id, f.type>>
Enqueue(qq, f) == IF Len(qq) < 6 /\ ~\E i \in 1..Len(qq) : QKey(qq[i]) = QKey(f) THEN Append(qq, f) ELSE qq

\* reference reassembler: strict sequence, same origin and id, cache dropped once a message completes
Reassemble(c, qq, f) ==
  IF f.type = FIRST THEN <<[valid |-> TRUE, from |-> f.from, id |-> f.id, expect |-> f.reserved - 1, body |-> f.body], qq>>
  ELSE IF ~(c.valid /\ c.from = f.from /\ c.id = f.id) THEN <<c, qq>>
  ELSE IF f.type = MORE THEN
       IF f.reserved = c.expect /\ c.expect > 1
       THEN <<[c EXCEPT !.expect = c.expect - 1, !.body = c.body \o f.body], qq>>
       ELSE <<c, qq>>
  ELSE \* LAST
       IF c.expect = 1
       THEN <<NoCache, Enqueue(qq, [from |-> f.from, id |-> f.id, type |-> f.reserved, body |-> c.body \o f.body])>>
       ELSE <<c, qq>>

Recv(m, k) == /\ k <= m.n /\ rcv[<<m, k>>] < MaxCopies /\ nrecv < MaxRecv
              /\ rcv' = [rcv EXCEPT ![<<m, k>>] = @ + 1] /\ nrecv' = nrecv + 1
              /\ LET r == Reassemble(cache, q, Frag(m, k)) IN cache' = r[1] /\ q' = r[2]
              /\ UNCHANGED delivered
DeqApp == /\ q # <<>> /\ delivered' = Append(delivered, Head(q)) /\ q' = Tail(q)
          /\ UNCHANGED <<cache, rcv, nrecv>>
Next == (\E m \in Msgs, k \in 1..7 : Recv(m, k)) \/ DeqApp
Spec == Init /\ [][Next]_vars

C06_Genuine    == Genuine(delivered \o q, Msgs)
C06_AtMostOnce == AtMostOnce(delivered \o q, Msgs, rcv)
\* non-vacuity: some behaviour really delivers (checked to be VIOLATED by the self-test)
NeverDelivers  == delivered = <<>>

M(f, i, t, n, g) == [from |-> f, id |-> i, type |-> t, n |-> n, tag |-> g]
\* message types are chosen to coincide with fragment counter values of the same message (the last fragment carries the
\* type in the very byte the other fragments use for the counter): type 2 with 3 or 4 fragments, 3 with 5, 5 with 7
MsgsQuick    == {M(2, 7, 2, 3, 1), M(3, 7, 65, 2, 1)}          \* two senders, coinciding ids, 3 and 2 fragments
MsgsThorough == {M(2, 7, 2, 3, 1), M(3, 7, 65, 2, 1), M(2, 8, 2, 4, 2)}   \* ids coincide only across senders
MsgsBig      == {M(2, 7, 3, 5, 1), M(3, 7, 65, 6, 1), M(4, 7, 5, 7, 1)}
=============================================================================
