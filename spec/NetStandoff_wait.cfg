SPECIFICATION Spec
CONSTANTS
  N = 4
  F = 2
  Tries = 2
  Mode = "wait"
INVARIANT C05_NoSilentLoss
CHECK_DEADLOCK FALSE
INVARIANT NoFrameDropped
