------------------------------ MODULE NetDispatch ------------------------------
(* L1 functional specification of what ONE received frame makes a node do      *)
(* (network/mixins.py: _net_update, _handle_frame_for_this_node,               *)
(* _handle_frame_for_other_node, and the forwarding half of _write).           *)
(* A frame h = [from, to, id, type, reserved] with message msg arrives at a    *)
(* node c = [addr, lvl, role, allowMc, relay, retSys, parent] whose next hops  *)
(* accept everything (the harness ACKs every transmission).  Outcome(c, h, msg) *)
(* says what update() returns, whether the frame is queued for the application *)
(* and which frames go on air, to which physical address, in which order.      *)
(* TraceInject.tla compares it with what the real node did for every injected  *)
(* vector (all roles, levels, message types, destination classes) - the whole  *)
(* case analysis of the dispatch code is bound to the specification, not only  *)
(* the safety clauses C15 names.                                               *)
(* Outside the exact contract (only C15's safety clauses apply): fragment      *)
(* types (stateful, C06), the reserved addresses 0o10 / 0o1000, origins that   *)
(* are not node addresses, and the mesh master's own DHCP / lookup traffic     *)
(* (C16 / C17).                                                                *)
EXTENDS NetAddr, NetFrame

Default   == 2340       \* 0o4444
McastAddr == 64         \* 0o100
TPing == 130  TAddrResp == 128  TAddrReq == 195  TNetAck == 193  TPoll == 194  TExt == 131
IsAckT(t) == t > 64 /\ t < 192

\* the frames a node puts on air: physical address, header, message, radio-level acknowledgement requested or not
\* (hop: the logical receiver - a node address, or -L for "every node of level L"; the monitor compares phys / data / noack,
\* NetDispatchWalk composes outcomes hop by hop through `hop`)
TxH(hop, phys, h, msg, noack) == [hop |-> hop, phys |-> phys, data |-> PackFrame(h, msg), noack |-> noack]
Toward(c, d, px, sx) == PhysAddr(NextHop(c.addr, d), PipeToward(c.addr, d), px, sx, c.allowMc)
TxToward(c, d, h, msg, px, sx) == TxH(NextHop(c.addr, d), Toward(c, d, px, sx), h, msg, FALSE)
\* "physical" transmissions go, unacknowledged, to pipe 0 of the named node (its level's shared address when multicast is on)
Pipe0Of(c, a, px, sx) == PhysAddr(a, 0, px, sx, c.allowMc)

\* forwarding a frame for another node; the hop that reaches the destination owes the origin a NETWORK_ACK for ack-type frames
Forward(c, h, msg, px, sx) ==
  <<TxToward(c, h.to, h, msg, px, sx)>> \o
  (IF NextHop(c.addr, h.to) = h.to /\ IsAckT(h.type) /\ h.from # c.addr
   THEN <<TxToward(c, h.from, [h EXCEPT !.type = TNetAck, !.to = h.from], msg, px, sx)>> ELSE <<>>)

Nothing(ret) == [ret |-> ret, queued |-> FALSE, tx |-> <<>>]

\* ---- the mesh master's answers to look-ups (c.dhcp = its table as a sequence of <<id, address>> pairs)
TAddrLookup == 196  TIdLookup == 198  TRelease == 197
Signed16(v) == LE16(IF v < 0 THEN v + 65536 ELSE v)
AddrOfId(tab, i) == IF i = 0 THEN 0 ELSE IF \E k \in 1..Len(tab) : tab[k][1] = i THEN tab[CHOOSE k \in 1..Len(tab) : tab[k][1] = i][2] ELSE -2
IdOfAddr(tab, a) == IF a = 0 THEN 0 ELSE IF \E k \in 1..Len(tab) : tab[k][2] = a THEN tab[CHOOSE k \in 1..Len(tab) : tab[k][2] = a][1] ELSE -2
LookupAnswer(c, h, msg, px, sx) ==
  LET enough == Len(msg) >= (IF h.type = TAddrLookup THEN 1 ELSE 2)
      val == IF h.type = TAddrLookup THEN AddrOfId(c.dhcp, msg[1]) ELSE IdOfAddr(c.dhcp, msg[1] + 256 * msg[2]) IN
  IF ~enough THEN Nothing(h.type)                                  \* truncated request: ignored
  ELSE [ret |-> h.type, queued |-> FALSE,
        tx |-> <<TxToward(c, h.from, [h EXCEPT !.to = h.from], Signed16(val), px, sx)>>]

InContract(c, h) == /\ h.type \notin {FIRST, MORE, LAST}
                    /\ IsNode(h.from) /\ (IsNode(h.to) \/ (h.to = McastAddr /\ c.allowMc))
                    /\ (h.to = McastAddr /\ c.relay => c.lvl \in 1..3)        \* what a relay on level 0 or 4 does is not specified
                    /\ ~(c.role = "master" /\ h.type \in {195, 197})           \* allocation and release: C16 (TraceMeshDhcp)
                    /\ ~(c.role = "master" /\ h.type \in {196, 198} /\ h.from = c.addr)

Outcome(c, h, msg, px, sx) ==
  IF h.to = c.addr THEN                                           \* ---- addressed to this node
     IF c.role = "master" /\ h.type \in {TAddrLookup, TIdLookup} THEN LookupAnswer(c, h, msg, px, sx)
     ELSE IF h.type = TPing THEN Nothing(TPing)
     ELSE IF h.type = TAddrResp /\ c.addr # Default THEN            \* hand an address response on to the unassigned requester
          [ret |-> TAddrResp, queued |-> FALSE, tx |-> <<TxH(Default, Pipe0Of(c, Default, px, sx), [h EXCEPT !.to = Default], msg, TRUE)>>]
     ELSE IF h.type = TAddrReq /\ c.addr # 0 THEN                   \* pass an address request on to the master, in this node's name
          [ret |-> TAddrReq, queued |-> FALSE, tx |-> <<TxToward(c, 0, [h EXCEPT !.from = c.addr, !.to = 0], msg, px, sx)>>]
     ELSE IF (c.retSys /\ h.type > 127 /\ h.type # TExt) \/ h.type = TNetAck THEN Nothing(h.type)   \* system message: reported, not queued
     ELSE [ret |-> h.type, queued |-> TRUE, tx |-> <<>>]
  ELSE IF h.to = McastAddr /\ c.allowMc THEN                        \* ---- multicast to this node's level
     IF h.type = TPoll /\ c.addr # Default THEN                     \* a joining node polls: answer directly unless children are refused
        [ret |-> 0, queued |-> FALSE,
         tx |-> IF c.parent THEN <<TxH(h.from, Pipe0Of(c, h.from, px, sx), [h EXCEPT !.to = h.from, !.from = c.addr], msg, TRUE)>> ELSE <<>>]
     ELSE [ret |-> h.type, queued |-> TRUE,
           tx |-> (IF c.relay THEN <<TxH(-(c.lvl + 1), PhysAddr(LevelAddr(c.lvl + 1), 0, px, sx, TRUE), h, msg, TRUE)>> ELSE <<>>)
                  \* (the master answers a look-up whatever address it was sent to)
                  \o (IF c.role = "master" /\ h.type \in {TAddrLookup, TIdLookup} THEN LookupAnswer(c, h, msg, px, sx).tx ELSE <<>>)]
  ELSE IF c.addr = Default THEN Nothing(h.type)                     \* ---- for somebody else, but this node has no place in the tree
  ELSE [ret |-> 0, queued |-> FALSE, tx |-> Forward(c, h, msg, px, sx)]   \* ---- for somebody else: pass it along

\* ---------------- origin side: what write(frame, traffic_direct) of a single-frame message puts on air
\* h = the caller's header (from is overwritten with the node's address), direct = 56 (AUTO_ROUTING, 0o70) or the logical
\* address of the node the frame is handed to un-routed ("multicast to the first node, routed normally from there")
Auto == 56
WriteOutcome(c, h0, msg, direct, px, sx) ==
  LET h == [h0 EXCEPT !.from = c.addr] IN
  IF direct = Auto THEN
       IF h.to = c.addr THEN [queued |-> TRUE, tx |-> <<>>, waits |-> FALSE]            \* loop-back: straight into the own queue
       ELSE [queued |-> FALSE, tx |-> <<TxToward(c, h.to, h, msg, px, sx)>>,
             waits |-> IsAckT(h.type) /\ NextHop(c.addr, h.to) # h.to]                   \* a NETWORK_ACK is awaited only over >= 2 hops
  ELSE \* handed, without radio acknowledgement, to pipe 0 of `direct`; nothing is awaited
       [queued |-> FALSE, tx |-> <<TxH(direct, Pipe0Of(c, direct, px, sx), h, msg, TRUE)>>, waits |-> FALSE]
=============================================================================
