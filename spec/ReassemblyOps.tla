---------------------------- MODULE ReassemblyOps ----------------------------
(* Property C06: whatever subset, duplication, reordering or interleaving of  *)
(* fragment frames a node receives, every message handed to the application   *)
(* is one complete message that was sent to it, and no message is delivered   *)
(* more often than the medium delivered each of its fragments.                *)
(*                                                                            *)
(* The environment part (Recv / DeqApp) is the fault-pattern generator whose  *)
(* behaviours are replayed on the real FrameQueueFrag; the reassembler part   *)
(* is the reference (strict) algorithm, model-checked against the clauses.    *)
(* Any discard policy satisfies the clauses - only safety is demanded.        *)
EXTENDS Integers, Sequences, FiniteSets, TLC, SequencesExt

FIRST == 148
MORE  == 149
LAST  == 150
Me    == 1          \* logical address of the receiving node (0o1)

\* a message is [from, id, type, n, tag]: n fragments; tag makes the bytes of every fragment unique
Body(m, k) == <<m.from, m.tag, k>>
Frag(m, k) == [from |-> m.from, to |-> Me, id |-> m.id,
               type |-> IF k = m.n THEN LAST ELSE IF k = 1 THEN FIRST ELSE MORE,
               reserved |-> IF k = m.n THEN m.type ELSE m.n - k + 1,
               body |-> Body(m, k)]
WholeBody(m) == FoldLeft(LAMBDA acc, k : acc \o Body(m, k), <<>>, [k \in 1..m.n |-> k])
Whole(m)     == [from |-> m.from, id |-> m.id, type |-> m.type, body |-> WholeBody(m)]

CountIn(seq, x) == Cardinality({i \in 1..Len(seq) : seq[i] = x})
MinOver(S, f(_)) == CHOOSE v \in {f(x) : x \in S} : \A w \in {f(x) : x \in S} : v <= w

\* ---- the clauses, over the delivered history `dl` and the reception counts `rc[<<m, k>>]`
Genuine(dl, msgs)        == \A i \in 1..Len(dl) : \E m \in msgs : dl[i] = Whole(m)
AtMostOnce(dl, msgs, rc) == \A m \in msgs :
                               CountIn(dl, Whole(m)) <= MinOver(1..m.n, LAMBDA k : rc[<<m, k>>])
=============================================================================
