--------------------------- MODULE TraceRf24Api ---------------------------
(* Total trace monitor for the RF24 configuration / pipe API (C03, C08, C20).*)
(* Every event carries the call, its outcome and the TRUE radio state        *)
(* (registers, CE) before and after, read from the radio double - never from  *)
(* driver internals.  The monitor checks the one-step contract of Rf24Api and *)
(* tracks only what registers cannot show: the user's pipe-0 intent.          *)
EXTENDS Rf24Api, Json, IOUtils
\* The input is a forest of events: histories that share a prefix share the nodes of that prefix (the driver is
\* deterministic), so every distinct (history prefix, call) is judged exactly once.  Node n has N[n].par (0 = root);
\* the state before a call is the parent's `post` (the root's own `pre`).
F == JsonDeserialize(IOEnv.TRACE_FILE)
N == F.nodes
VARIABLES node, verdict, u
tvars == <<node, verdict, u>>
Lite == F.lite        \* rf24_lite: ValueError instead of IndexError, no per-pipe forms

St(j) == [c |-> j.c, aa |-> j.aa, en |-> j.en, aw |-> j.aw, retr |-> j.retr, ch |-> j.ch, rf |-> j.rf, dyn |-> j.dyn,
          feat |-> j.feat, pw |-> j.pw, p0 |-> j.p0, p1 |-> j.p1, p25 |-> j.p25, txa |-> j.txa, ce |-> j.ce]
PreOf(e) == IF "pre" \in DOMAIN e THEN e.pre ELSE N[e.par].post
Differs(a, b) == {f \in Fields : a[f] # b[f]}
ExcOk(want, got) == \/ want = got \/ (want = "any" /\ got # "none")
                    \/ (Lite /\ want = "IndexError" /\ got = "ValueError")

\* compare expected and observed post-state; p0 only over the address width when entering RX
Mismatch(exp, obs, free, c) ==
  {f \in Fields \ free : IF f = "p0" /\ c.op = "listen=" THEN SubSeq(exp.p0, 1, AW(obs)) # SubSeq(obs.p0, 1, AW(obs))
                         ELSE exp[f] # obs[f]}

\* documented reductions of rf24_lite (C20): global dynamic payloads / payload length, auto-ack always on, no caches
PostL(pre, uu, c) ==
  IF Lite /\ c.op = "ack=" THEN (IF c.v THEN [pre EXCEPT !.dyn = 63, !.feat = SetField(pre.feat, 6, 6)]
                                 ELSE [pre EXCEPT !.feat = SetBit(pre.feat, 1, FALSE)])
  ELSE Post(pre, uu, c)
FreeL(pre, uu, c) == IF Lite /\ c.op = "open_tx_pipe" THEN {"p0", "en"} ELSE FreeFields(pre, uu, c)
RetL(pre, c) == IF Lite /\ c.op = "dynamic_payloads" THEN Bit(pre.feat, 2) = 1
                ELSE IF Lite /\ c.op = "ack" THEN (pre.feat & 6) = 6 /\ pre.dyn # 0
                ELSE Ret(pre, c)
RetTagL(c) == IF Lite /\ c.op = "dynamic_payloads" THEN "bool" ELSE RetTag(c)

CallClause(e) ==
  LET c == e.call  pre == St(PreOf(e))  post == St(e.post)  want == Exc(pre, c) IN
  IF Len(e.illegal) > 0 THEN <<"C03.NoIllegalWrite", e.illegal[1]>>
  ELSE IF \E k \in 1..Len(e.role) : (e.role[k][1] % 2) # (e.role[k][2] % 2) /\ e.role[k][3] = 1
       THEN <<"C08.CE", "CE high while PRIM_RX is being changed">>
  ELSE IF c.op = "pa_level=" /\ want = "ValueError" /\ e.exc = "none"
       THEN (IF post = [pre EXCEPT !.rf = SetField(pre.rf, 7, 7)] THEN <<"ok", "">>       \* docs: invalid -> 0 dBm, LNA on
             ELSE <<"C03.Encoding", "pa_level invalid input neither rejected nor defaulted">>)
  ELSE IF ~ExcOk(want, e.exc) THEN <<"C03.Reject", c.op \o " expected " \o want \o " got " \o e.exc>>
  ELSE IF e.exc # "none" THEN
       (IF Differs(pre, post) # {} THEN <<"C03.Frame", c.op \o " raised but changed " \o ToString(Differs(pre, post))>>
        ELSE <<"ok", "">>)
  ELSE IF IsGetter(c) THEN
       (IF Differs(pre, post) # {} THEN <<"C03.Frame", c.op \o " (getter) changed " \o ToString(Differs(pre, post))>>
        ELSE IF e.rt # RetTagL(c) THEN <<"C03.Getter", c.op \o " returned a " \o e.rt>>
        ELSE IF e.rv # RetL(pre, c) THEN <<"C03.Getter", c.op \o " returned " \o ToString(e.rv) \o " expected " \o ToString(RetL(pre, c))>>
        ELSE <<"ok", "">>)
  ELSE LET exp == PostL(pre, u, c)  free == FreeL(pre, u, c)  bad == Mismatch(exp, post, free, c) IN
       IF bad = {} THEN <<"ok", "">>
       ELSE IF c.op = "listen=" /\ c.v /\ bad \subseteq {"p0", "en"} THEN <<"C08.RxP0", ToString(bad) \o " on entering RX">>
       ELSE IF c.op = "listen=" /\ bad \subseteq {"ce"} THEN <<"C08.CE", "CE after role change">>
       ELSE IF c.op = "open_tx_pipe" /\ bad \subseteq {"p0", "en"} THEN <<"C08.TxAck", ToString(bad) \o " after open_tx_pipe in TX mode">>
       ELSE IF bad \cap Owner(c) = {} THEN <<"C03.Frame", c.op \o " changed " \o ToString(bad)>>
       ELSE <<"C03.Encoding", c.op \o " wrong " \o ToString(bad)>>

\* re-entering the context must not change any configuration register (cached view = radio)
ReenterClause(e) ==
  LET pre == St(PreOf(e))  post == St(e.post)
      exp == [pre EXCEPT !.c = SetBit(pre.c, 1, TRUE), !.ce = 0] IN
  IF e.exc # "none" THEN <<"C03.ShadowCoherent", "re-entering the context raised " \o e.exc>>
  ELSE IF Differs(exp, post) = {} THEN <<"ok", "">>
  ELSE <<"C03.ShadowCoherent", "re-entering the context changed " \o ToString(Differs(exp, post))>>

\* behavioural probes at the end of a history (C08): a packet sent to the user's pipe-0 address after entering RX;
\* a send() to a listening peer after open_tx_pipe in TX mode with auto-ack on pipe 0
ProbeClause(e) ==
  IF e.k = "probe_rx" THEN
     (IF e.delivered # u.open THEN <<"C08.RxP0", IF u.open THEN "packet to the user's pipe-0 address not received in RX mode"
                                                  ELSE "pipe 0 receives although the user closed / never opened it">>
      ELSE IF e.tx_delivered /\ ~(u.open /\ SubSeq(u.addr, 1, e.aw) = SubSeq(e.txa, 1, e.aw))
           THEN <<"C08.RxP0", "pipe 0 listens on the TX address in RX mode">> ELSE <<"ok", "">>)
  ELSE IF e.k = "probe_tx" THEN
     (IF ~e.result THEN <<"C08.TxAck", "send() to a listening peer failed right after open_tx_pipe()">> ELSE <<"ok", "">>)
  ELSE <<"ok", "">>

\* a new driver object on a radio that was not power-cycled (Rf24Api!Constructed)
ConstructClause(e) ==
  LET pre == St(PreOf(e))  post == St(e.post) IN
  IF e.exc # "none" THEN <<"C03.Encoding", "constructing a driver object on a running radio raised " \o e.exc>>
  ELSE IF Differs(Constructed(pre), post) = {} THEN <<"ok", "">>
  ELSE <<"C03.Encoding", "a driver object constructed on a running radio left " \o ToString(Differs(Constructed(pre), post))
                         \o " off the documented defaults">>

Roots == {F.roots[k] : k \in 1..Len(F.roots)}
Judge(e, uu) == IF e.k = "reenter" THEN ReenterClause(e)
                ELSE IF e.k = "construct" THEN ConstructClause(e)
                ELSE IF e.k \in {"probe_rx", "probe_tx"} THEN ProbeClause(e) ELSE CallClause(e)
TInit == node = 0 /\ verdict = <<"ok", "">> /\ u = NoIntent
Step == /\ \E k \in (IF node = 0 THEN Roots ELSE {F.kids[node][j] : j \in 1..Len(F.kids[node])}) :
             LET e == N[k] IN
             /\ node' = k
             /\ verdict' = Judge(e, u)
             /\ u' = IF e.k = "call" THEN Intent(St(PreOf(e)), u, e.call, e.exc)
                     ELSE IF e.k = "construct" THEN NoIntent ELSE u
TSpec == TInit /\ [][Step]_tvars
Report == verdict[1] # "ok" => PrintT("VERDICT " \o ToString(<<node, 0, verdict[1], verdict[2]>>))
=============================================================================
