INIT JInit
NEXT JNext
CONSTANTS
  Ids = {}
  Vias = {}
  MaxDepth = 0
  Joiners = {1, 2, 3}
  Relays = {1, 5}
  BoundedDelay = FALSE
  MaxReq = 5
INVARIANT C17_Distinct
INVARIANT C17_Recorded
INVARIANT C17_ValidAddr
INVARIANT C17_TableInjective
CHECK_DEADLOCK FALSE
