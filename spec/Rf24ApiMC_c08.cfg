SPECIFICATION Spec
CONSTANT MaxDepth = 6
INVARIANT C03_WellFormed
PROPERTY C08_TxAckByContract
CHECK_DEADLOCK FALSE
