SPECIFICATION Fair
CONSTANTS
  Tree = {0, 1, 9, 73}
  Relays = {}
  NoMc = {}
  Types = {65}
  Lens = {1}
  FragLen = 1
  MaxWrites = 1
  MaxLoss = 1
  Concurrent = FALSE
  Redeliver = FALSE
  FreeTimeout = TRUE
PROPERTY Termination
CHECK_DEADLOCK FALSE
