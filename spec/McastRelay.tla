------------------------------ MODULE McastRelay ------------------------------
(* L2 design model behind the open C14 finding: one node multicasts a message   *)
(* of F fragments to a level; a receiver of that level has multicast_relay on.   *)
(* What the code does (network/mixins.py, _handle_frame_for_other_node):         *)
(*  - the sender streams the fragments back to back, one every P ticks, without  *)
(*    radio acknowledgements (nothing tells it whether anybody listens);         *)
(*  - the receiver takes R ticks to read a frame out of its 3-deep RX FIFO; a     *)
(*    relaying receiver then sleeps D ticks (2.4 ms on level 1 plus 0.6 ms times  *)
(*    address mod 4 - still listening) and re-broadcasts the frame to the next    *)
(*    level, which keeps its radio in TX mode - deaf - for X ticks, BEFORE it     *)
(*    reads the next fragment;                                                   *)
(*  - a fragment that arrives while the radio is in TX mode, or while the FIFO   *)
(*    already holds 3 frames, is lost; the reassembly then never completes.      *)
(* Time is discrete (1 tick = 0.1 ms); the timing constants are chosen at Init   *)
(* from sets measured on the executable double (P = 5..6, R = 2..4, X = 8..12,   *)
(* D in {0, 6, 12, 18, 24, 30, 36, 42}), so TLC explores every combination.      *)
(* Relay = FALSE: every fragment is received for every combination.             *)
(* Relay = TRUE : TLC exhibits the loss (already for F = 2 when D = 0, for       *)
(*                F >= 5 with the level-1 delay).                               *)
EXTENDS Integers, Sequences, FiniteSets, TLC
CONSTANTS F,            \* fragments of the message
          Relay,        \* the receiver has multicast_relay enabled
          Ps, Rs, Ds, Xs
VARIABLES now,     \* ticks since the first fragment went on air
          P, R, D, X,
          fifo,    \* receiver's RX FIFO: sequence of fragment numbers
          phase,   \* "idle" | "read" | "sleep" | "tx"
          until,   \* end of the current phase
          cur,     \* fragment being handled
          got,     \* fragments the receiver's reassembly has seen, in order
          lost,    \* fragments that never entered the FIFO
          relayed
vars == <<now, P, R, D, X, fifo, phase, until, cur, got, lost, relayed>>

Init == /\ now = 0 /\ P \in Ps /\ R \in Rs /\ D \in Ds /\ X \in Xs /\ R < P
        /\ fifo = <<>> /\ phase = "idle" /\ until = 0 /\ cur = 0 /\ got = <<>> /\ lost = {} /\ relayed = <<>>

Arriving == IF now % P = 0 /\ now \div P < F THEN now \div P + 1 ELSE 0
Horizon == F * P + F * (R + D + X) + 1

\* one tick: first the receiver finishes what ends now, then the fragment that arrives now (if any) meets the radio
Next ==
  /\ now < Horizon /\ now' = now + 1 /\ UNCHANGED <<P, R, D, X>>
  /\ LET \* --- receiver
         done    == phase # "idle" /\ until = now
         ph1     == IF ~done THEN phase
                    ELSE IF phase = "read" THEN (IF Relay THEN (IF D > 0 THEN "sleep" ELSE "tx") ELSE "idle")
                    ELSE IF phase = "sleep" THEN "tx" ELSE "idle"
         un1     == IF ~done THEN until
                    ELSE IF phase = "read" THEN (IF Relay THEN (IF D > 0 THEN now + D ELSE now + X) ELSE until)
                    ELSE IF phase = "sleep" THEN now + X ELSE until
         got1    == IF done /\ phase = "read" THEN Append(got, cur) ELSE got
         rel1    == IF done /\ phase = "tx" THEN Append(relayed, cur) ELSE relayed
         \* an idle receiver with a frame waiting starts reading it
         start   == ph1 = "idle" /\ fifo # <<>>
         ph2     == IF start THEN "read" ELSE ph1
         un2     == IF start THEN now + R ELSE un1
         cur2    == IF start THEN Head(fifo) ELSE cur
         fifo2   == IF start THEN Tail(fifo) ELSE fifo
         \* --- the fragment on air
         k       == Arriving
         hears   == k # 0 /\ ph2 # "tx" /\ Len(fifo2) < 3
     IN /\ phase' = ph2 /\ until' = un2 /\ cur' = cur2 /\ got' = got1 /\ relayed' = rel1
        /\ fifo' = (IF hears THEN Append(fifo2, k) ELSE fifo2)
        /\ lost' = (IF k # 0 /\ ~hears THEN lost \cup {k} ELSE lost)
Spec == Init /\ [][Next]_vars

\* ---- what C14 needs from the design
C14_NoFragmentLost == lost = {}
Finished == now = Horizon
C14_Received == Finished => got = [i \in 1..F |-> i]
C14_RelayedAll == (Finished /\ Relay) => relayed = got
=============================================================================
