INIT TInit
NEXT TNext
INVARIANT Report
CHECK_DEADLOCK FALSE
