SPECIFICATION Spec
CONSTANTS
  Frames <- FramesThorough
  MaxSizes = {0, 1, 2, 3, 6}
  MaxLen = 4
CONSTRAINT Bounded
INVARIANT C12_Bound
INVARIANT C12_NoDup
PROPERTY C12_GrowOnlyBelowMax
PROPERTY C12_FifoStep
PROPERTY C12_ToggleKeeps
CHECK_DEADLOCK FALSE
