------------------------------- MODULE TraceNet -------------------------------
(* Window monitor for the network layer (C05, C07, C13, C14, parts of C17):   *)
(* one step per job window of a multi-node simulation of the real nodes.      *)
(* Every window is judged independently; all failing clauses are printed.     *)
EXTENDS Network, Json, IOUtils
Traces == JsonDeserialize(IOEnv.TRACE_FILE)
VARIABLES tid, l, verdict
tvars == <<tid, l, verdict>>
T == Traces[tid]
OK == <<"ok", "">>
NodeNamed(nm) == CHOOSE i \in 1..Len(T.nodes) : T.nodes[i].name = nm
NodeAt(addr) == {i \in 1..Len(T.nodes) : T.nodes[i].addr = addr}
NameAt(addr) == T.nodes[CHOOSE i \in NodeAt(addr) : TRUE].name
AllowMc(nm) == T.nodes[NodeNamed(nm)].allow_mc
Idx(seq) == 1..Len(seq)

\* ---- C07: every public return in the window leaves the radio listening on the node's addresses
C07(w) == LET bad == {i \in Idx(w.rets) : ~Listening(T.projs[w.rets[i].proj], w.rets[i].addr, w.rets[i].lvl,
                                                       AllowMc(w.rets[i].n), T.prefix, T.suffix)} IN
          IF bad = {} THEN OK
          ELSE LET i == CHOOSE j \in bad : \A k \in bad : j <= k IN
               <<"C07.Listening", w.rets[i].api \o "() returned on node " \o ToString(w.rets[i].addr) \o " without the radio listening">>

\* ---- C05: unicast write of a user message on a loss-free medium, one message in flight
C05(w) ==
  LET c == w.call
      good == {i \in Idx(w.deqs) : w.deqs[i].n = NameAt(c.to) /\ w.deqs[i]["from"] = c.src /\ w.deqs[i].type = c.type
                                   /\ w.deqs[i].msg = c.msg} IN
  IF w.ret.exc # "none" THEN <<"C05.ReturnTrue", "write() raised " \o w.ret.exc>>
  ELSE IF \E i \in Idx(w.pkts) : Len(w.pkts[i].data) > 32 THEN <<"C05.FrameSize", "packet longer than 32 bytes on air">>
  ELSE IF good = {} THEN <<"C05.Delivered", IF w.ret.res THEN "write() returned True but the message never reached the destination queue"
                                            ELSE "message not delivered and write() returned False">>
  ELSE IF Cardinality(good) > 1 THEN <<"C05.Once", "message delivered " \o ToString(Cardinality(good)) \o " times">>
  ELSE IF \E i \in Idx(w.deqs) : i \notin good THEN
       <<"C05.NoBystander", "another frame was handed to an application (node " \o (w.deqs[CHOOSE i \in Idx(w.deqs) : i \notin good].n) \o ")">>
  ELSE IF ~w.ret.res THEN <<"C05.ReturnTrue", "delivered but write() returned False">>
  ELSE OK

Crash(w) == IF Len(w.bad) > 0 THEN <<"C15.NoRaise", w.bad[1].k \o " on " \o w.bad[1].n \o ": " \o w.bad[1].what>> ELSE OK

Families(w) == {w.call.chk[i] : i \in Idx(w.call.chk)}
Verdicts(w) == <<Crash(w)>>
               \o (IF "C07" \in Families(w) THEN <<C07(w)>> ELSE <<>>)
               \o (IF "C05" \in Families(w) THEN <<C05(w)>> ELSE <<>>)
Failing(w) == SelectSeq(Verdicts(w), LAMBDA v : v[1] # "ok")

TInit == tid \in 1..Len(Traces) /\ l = 1 /\ verdict = <<>>
Step == /\ l <= Len(T.wins) /\ l' = l + 1 /\ tid' = tid /\ verdict' = Failing(T.wins[l])
TSpec == TInit /\ [][Step]_tvars
Report == \A k \in 1..Len(verdict) : PrintT("VERDICT " \o ToString(<<tid, l - 1, verdict[k][1], verdict[k][2]>>))
=============================================================================
