------------------------------- MODULE TraceNet -------------------------------
(* Window monitor for the network layer (C05, C07, C13, C14, parts of C17):   *)
(* one step per job window of a multi-node simulation of the real nodes.      *)
(* Every window is judged independently; all failing clauses are printed.     *)
EXTENDS Network, Json, IOUtils
Traces == JsonDeserialize(IOEnv.TRACE_FILE)
VARIABLES tid, l, verdict
tvars == <<tid, l, verdict>>
T == Traces[tid]
OK == <<"ok", "">>
NodeNamed(nm) == CHOOSE i \in 1..Len(T.nodes) : T.nodes[i].name = nm
NodeAt(addr) == {i \in 1..Len(T.nodes) : T.nodes[i].addr = addr}
NameAt(addr) == T.nodes[CHOOSE i \in NodeAt(addr) : TRUE].name
AllowMc(nm) == T.nodes[NodeNamed(nm)].allow_mc
Idx(seq) == 1..Len(seq)

\* ---- C07: every public return in the window leaves the radio listening on the node's addresses
C07(w) == LET bad == {i \in Idx(w.rets) : ~Listening(T.projs[w.rets[i].proj], w.rets[i].addr, w.rets[i].lvl,
                                                       w.rets[i].amc, T.prefix, T.suffix)} IN   \* amc: allow_multicast at that moment
          IF bad = {} THEN OK
          ELSE LET i == CHOOSE j \in bad : \A k \in bad : j <= k IN
               <<"C07.Listening", w.rets[i].api \o "() returned on node " \o ToString(w.rets[i].addr) \o " without the radio listening">>

\* ---- C05: unicast write of a user message on a loss-free medium, one message in flight
C05(w) ==
  LET c == w.call
      good == {i \in Idx(w.deqs) : w.deqs[i].n = NameAt(c.to) /\ w.deqs[i]["from"] = c.src /\ w.deqs[i].type = c.type
                                   /\ w.deqs[i].msg = c.msg} IN
  IF w.ret.exc # "none" THEN <<"C05.ReturnTrue", "write() raised " \o w.ret.exc>>
  ELSE IF \E i \in Idx(w.pkts) : Len(w.pkts[i].data) > 32 THEN <<"C05.FrameSize", "packet longer than 32 bytes on air">>
  ELSE IF good = {} THEN <<"C05.Delivered", IF w.ret.res THEN "write() returned True but the message never reached the destination queue"
                                            ELSE "message not delivered and write() returned False">>
  ELSE IF Cardinality(good) > 1 THEN <<"C05.Once", "message delivered " \o ToString(Cardinality(good)) \o " times">>
  ELSE IF \E i \in Idx(w.deqs) : i \notin good THEN
       <<"C05.NoBystander", "another frame was handed to an application (node " \o (w.deqs[CHOOSE i \in Idx(w.deqs) : i \notin good].n) \o ")">>
  ELSE IF ~w.ret.res THEN <<"C05.ReturnTrue", "delivered but write() returned False">>
  ELSE OK

\* the destination's application was busy and then sent a message of its own before polling: the message the radio had
\* accepted (write() returned True) must still come out of its queue, once (other traffic of the window is not judged)
C05b(w) ==
  LET c == w.call
      good == {i \in Idx(w.deqs) : w.deqs[i].n = NameAt(c.to) /\ w.deqs[i]["from"] = c.src /\ w.deqs[i].type = c.type
                                   /\ w.deqs[i].msg = c.msg} IN
  IF w.ret.exc # "none" THEN <<"C05.ReturnTrue", "write() raised " \o w.ret.exc>>
  ELSE IF ~w.ret.res THEN <<"C05.ReturnTrue", "write() to a listening neighbour returned False">>
  ELSE IF good = {} THEN <<"C05.Delivered", "write() returned True but the message never reached the destination queue (the destination transmitted before it polled)">>
  ELSE IF Cardinality(good) > 1 THEN <<"C05.Once", "message delivered " \o ToString(Cardinality(good)) \o " times">>
  ELSE OK

\* ---- ground truth helpers
RxBy(pkt, nm) == \E k \in Idx(pkt.rx) : pkt.rx[k][1] = nm /\ pkt.rx[k][3] = "new"
FromNode(pkts, nm) == SelectSeq(pkts, LAMBDA p : p.src = nm)
Loads(pkts) == {pkts[i].load : i \in Idx(pkts)}
RECURSIVE LastRouter(_, _)
LastRouter(s, d) == IF NextHop(s, d) = d THEN s ELSE LastRouter(NextHop(s, d), d)     \* node that delivers to d
Min0(S) == IF S = {} THEN -1 ELSE CHOOSE x \in S : \A y \in S : x <= y

\* ---- C13: NETWORK_ACK for single-frame unicast writes
C13(w) ==
  LET c == w.call  h == Hops(c.src, c.to)  need == IsAckType(c.type) /\ h >= 2
      acks == NetAcks(w.pkts)  users == UserFrames(w.pkts)
      origin == c.n
      tAccept == Min0({users[i].t : i \in {j \in Idx(users) : users[j].src = origin /\ users[j].acked}})
      delivered == \E i \in Idx(users) : HdrOf(users[i]).to = c.to /\ NodeAt(c.to) # {} /\ RxBy(users[i], NameAt(c.to))
      arrivals == {acks[i].t : i \in {j \in Idx(acks) : RxBy(acks[j], origin) /\ HdrOf(acks[j]).to = c.src}}   \* addressed to the sender
      rt == c.route_timeout * 1000  tt == c.tx_timeout * 1000 IN
  IF w.ret.exc # "none" THEN <<"C13.Bounded", "write() raised " \o w.ret.exc>>
  ELSE IF ~need /\ acks # <<>> THEN <<"C13.NeverOtherwise", "NETWORK_ACK on air for a frame that must not cause one">>
  ELSE IF need /\ ~delivered /\ acks # <<>> THEN <<"C13.ExactlyOneAck", "NETWORK_ACK although the frame was not delivered to its destination">>
  ELSE IF need /\ delivered /\ Cardinality(Loads(FromNode(acks, NameAt(LastRouter(c.src, c.to))))) # 1
       THEN <<"C13.ExactlyOneAck", "the delivering node generated " \o ToString(Cardinality(Loads(FromNode(acks, NameAt(LastRouter(c.src, c.to)))))) \o " NETWORK_ACKs">>
  ELSE IF need /\ \E i \in Idx(acks) : HdrOf(acks[i]).to # c.src THEN <<"C13.ExactlyOneAck", "NETWORK_ACK not addressed to the origin">>
  ELSE IF need /\ w.ret.res /\ ~(\E t \in arrivals : t <= w.ret.t) THEN <<"C13.TrueOnlyIfArrived", "True although no NETWORK_ACK reached the origin">>
  ELSE IF need /\ ~w.ret.res /\ tAccept >= 0 /\ (\E t \in arrivals : t >= tAccept /\ t <= tAccept + rt - 3000)
       THEN <<"C13.TrueOnlyIfArrived", "False although a NETWORK_ACK reached the origin in time">>
  ELSE IF ~need /\ w.ret.res # (tAccept >= 0) THEN <<"C13.TrueOnlyIfArrived", "result differs from first-hop acceptance for a frame that needs no NETWORK_ACK">>
  ELSE IF ~need /\ tAccept >= 0 /\ w.ret.t - tAccept > 6000 THEN <<"C13.WaitOnlyIfNeeded", "blocked after the first hop had accepted a frame that needs no NETWORK_ACK">>
  ELSE IF need /\ ~w.ret.res /\ tAccept >= 0 /\ w.ret.t - tAccept < rt - 3000 THEN <<"C13.WaitOnlyIfNeeded", "gave up before route_timeout">>
  ELSE IF w.ret.dt > 2 * tt + rt + 60000 THEN <<"C13.Bounded", ToString(w.ret.dt) \o " us">>
  ELSE OK

\* with cross traffic (another ack-type message in flight through the sender) only the result / arrival relation is judged
C13x(w) ==
  LET c == w.call  acks == NetAcks(w.pkts)
      arrivals == {acks[i].t : i \in {j \in Idx(acks) : RxBy(acks[j], c.n) /\ HdrOf(acks[j]).to = c.src}} IN
  IF w.ret.exc # "none" THEN <<"C13.Bounded", "write() raised " \o w.ret.exc>>
  ELSE IF w.ret.res /\ ~(\E t \in arrivals : t <= w.ret.t) THEN <<"C13.TrueOnlyIfArrived", "True although no NETWORK_ACK addressed to the sender reached it">>
  ELSE IF w.ret.dt > 2 * c.tx_timeout * 1000 + c.route_timeout * 1000 + 60000 THEN <<"C13.Bounded", ToString(w.ret.dt) \o " us">>
  ELSE OK

\* ---- C14: multicast
LvlOf(i) == T.nodes[i].lvl
Step14(E, sender) == E \cup {m \in Idx(T.nodes) : T.nodes[m].allow_mc /\      \* (the sender may hear its own frame back through relays)
                                 \E n \in E : T.nodes[n].relay /\ LvlOf(n) \in 1..3 /\ LvlOf(m) = LvlOf(n) + 1}
Heard(mc, nm) == Cardinality({i \in Idx(mc) : RxBy(mc[i], nm)})
C14(w) ==
  LET c == w.call  sender == NodeNamed(c.n)
      L == IF c.level < 0 THEN c.lvl ELSE (IF c.level > 4 THEN 4 ELSE c.level)
      E0 == {m \in Idx(T.nodes) : m # sender /\ T.nodes[m].allow_mc /\ LvlOf(m) = L}
      E == Step14(Step14(Step14(Step14(E0, sender), sender), sender), sender)
      Got(m) == Cardinality({i \in Idx(w.deqs) : w.deqs[i].n = T.nodes[m].name /\ w.deqs[i].type = c.type /\ w.deqs[i].msg = c.msg
                                                 /\ w.deqs[i]["from"] = c.src})
      mc == SelectSeq(w.pkts, LAMBDA p : IsFrame(p) /\ HdrOf(p).to = 64)
      nfr == NFrags(Len(c.msg))
      Relays == {n \in E \ {sender} : T.nodes[n].relay /\ LvlOf(n) \in 1..3} IN
  IF w.ret.exc # "none" THEN <<"C14.ExactlyLevel", "multicast() raised " \o w.ret.exc>>
  ELSE IF \E i \in Idx(w.pkts) : IsFrame(w.pkts[i]) /\ HdrOf(w.pkts[i]).type = NetAckType THEN <<"C13.AckOnce", "a multicast caused a NETWORK_ACK">>
  ELSE IF \E i \in Idx(w.pkts) : w.pkts[i].want_ack THEN <<"C14.NoAckRequested", "a packet of the multicast requested a radio acknowledgement">>
  ELSE IF \E i \in Idx(w.pkts) : w.pkts[i].has_ack THEN <<"C14.NoAckSent", "a receiver acknowledged a multicast packet">>
  ELSE IF \E m \in E0 : Got(m) = 0 THEN <<"C14.ExactlyLevel", "node " \o ToString(T.nodes[CHOOSE m \in E0 : Got(m) = 0].addr) \o " of the addressed level did not receive the multicast">>
  ELSE IF \E m \in E : Got(m) > 1 THEN <<"C14.ExactlyLevel", "multicast delivered more than once to one node">>
  ELSE IF \E i \in Idx(w.deqs) : NodeNamed(w.deqs[i].n) \notin E \cup {sender} THEN
       <<"C14.ExactlyLevel", "node " \o ToString(T.nodes[NodeNamed(w.deqs[CHOOSE i \in Idx(w.deqs) : NodeNamed(w.deqs[i].n) \notin E \cup {sender}].n)].addr) \o " of another level received the multicast">>
  ELSE IF ~T.nodes[sender].relay /\ \E i \in Idx(mc) : mc[i].src = c.n /\ mc[i].addr # PhysAddr(LevelAddr(L), 0, T.prefix, T.suffix, TRUE) /\ L # 0
       THEN <<"C14.ExactlyLevel", "sender transmitted to another address than the level's">>
  ELSE IF \E n \in Relays : Cardinality(Loads(FromNode(mc, T.nodes[n].name))) # Heard(mc, T.nodes[n].name)
       THEN <<"C14.RelayOnce", "a relaying node did not re-broadcast each received multicast frame exactly once">>
  ELSE IF \E n \in Relays : \E i \in Idx(mc) : mc[i].src = T.nodes[n].name /\ ~\E j \in Idx(w.pkts) : RxBy(w.pkts[j], T.nodes[n].name) /\ w.pkts[j].data = mc[i].data
       THEN <<"C14.RelayOnce", "a relaying node re-broadcast something other than a frame it received">>
  ELSE IF \E n \in Relays : \E j \in Idx(mc) : RxBy(mc[j], T.nodes[n].name) /\ ~\E i \in Idx(w.pkts) : w.pkts[i].src = T.nodes[n].name /\ w.pkts[i].data = mc[j].data
       THEN <<"C14.RelayOnce", "a relaying node did not re-broadcast a multicast frame it received unchanged">>
  ELSE IF \E i \in Idx(w.deqs) : ~(w.deqs[i].type = c.type /\ w.deqs[i].msg = c.msg /\ w.deqs[i]["from"] = c.src)
       THEN <<"C14.ExactlyLevel", "a node queued something other than the multicast message">>
  ELSE IF \E n \in Relays : \E i \in Idx(mc) : mc[i].src = T.nodes[n].name /\ mc[i].addr # PhysAddr(LevelAddr(LvlOf(n) + 1), 0, T.prefix, T.suffix, TRUE)
       THEN <<"C14.RelayOnce", "relayed to another level than the next">>
  ELSE IF \E m \in Idx(T.nodes) : ~T.nodes[m].relay /\ m # sender /\ FromNode(mc, T.nodes[m].name) # <<>>
       THEN <<"C14.RelayOnce", "a node with multicast_relay off re-broadcast the frame">>
  ELSE OK

\* a multicast sent while another node's unicast is in flight (a level-L node waiting for the NETWORK_ACK of its own routed
\* message): only the multicast's own frames are judged - nobody acknowledges them, the waiting node included, and
\* nobody gets it twice (delivery itself is best-effort under the concurrent traffic: frames may collide on the air)
C14w(w) ==
  LET c == w.call  sender == NodeNamed(c.n)
      L == IF c.level < 0 THEN c.lvl ELSE (IF c.level > 4 THEN 4 ELSE c.level)
      E0 == {m \in Idx(T.nodes) : m # sender /\ T.nodes[m].allow_mc /\ LvlOf(m) = L}
      Got(m) == Cardinality({i \in Idx(w.deqs) : w.deqs[i].n = T.nodes[m].name /\ w.deqs[i].type = c.type /\ w.deqs[i].msg = c.msg
                                                 /\ w.deqs[i]["from"] = c.src})
      mc == SelectSeq(w.pkts, LAMBDA p : IsFrame(p) /\ HdrOf(p).to = 64) IN
  IF w.ret.exc # "none" THEN <<"C14.ExactlyLevel", "multicast() raised " \o w.ret.exc>>
  ELSE IF \E i \in Idx(mc) : mc[i].want_ack THEN <<"C14.NoAckRequested", "a packet of the multicast requested a radio acknowledgement">>
  ELSE IF \E i \in Idx(mc) : mc[i].has_ack
       THEN <<"C14.NoAckSent", "a receiver acknowledged a multicast packet (while waiting for a NETWORK_ACK of its own)">>
  ELSE IF \E m \in E0 : Got(m) > 1 THEN <<"C14.ExactlyLevel", "multicast delivered more than once to one node">>
  ELSE OK

Crash(w) == IF Len(w.bad) > 0 THEN <<"C15.NoRaise", w.bad[1].k \o " on " \o w.bad[1].n \o ": " \o w.bad[1].what>> ELSE OK

Families(w) == {w.call.chk[i] : i \in Idx(w.call.chk)}
Verdicts(w) == (IF Families(w) = {} THEN <<>> ELSE <<Crash(w)>>)
               \o (IF "C07" \in Families(w) THEN <<C07(w)>> ELSE <<>>)
               \o (IF "C05" \in Families(w) THEN <<C05(w)>> ELSE <<>>)
               \o (IF "C05b" \in Families(w) THEN <<C05b(w)>> ELSE <<>>)
               \o (IF "C13" \in Families(w) THEN <<C13(w)>> ELSE <<>>)
               \o (IF "C13x" \in Families(w) THEN <<C13x(w)>> ELSE <<>>)
               \o (IF "C14" \in Families(w) THEN <<C14(w)>> ELSE <<>>)
               \o (IF "C14w" \in Families(w) THEN <<C14w(w)>> ELSE <<>>)
Failing(w) == SelectSeq(Verdicts(w), LAMBDA v : v[1] # "ok")

TInit == tid \in 1..Len(Traces) /\ l = 1 /\ verdict = <<>>
Step == /\ l <= Len(T.wins) /\ l' = l + 1 /\ tid' = tid /\ verdict' = Failing(T.wins[l])
TSpec == TInit /\ [][Step]_tvars
Report == \A k \in 1..Len(verdict) : PrintT("VERDICT " \o ToString(<<tid, l - 1, verdict[k][1], verdict[k][2]>>))
=============================================================================
