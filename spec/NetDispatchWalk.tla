--------------------------- MODULE NetDispatchWalk ---------------------------
(* L1 design check: composing NetDispatch!WriteOutcome at the origin with      *)
(* NetDispatch!Outcome at every node a frame reaches yields, for EVERY ordered  *)
(* pair of nodes and for plain and acknowledged types, what C05 and C13 ask of  *)
(* single-frame unicast messages: the message is queued exactly once, at its    *)
(* destination, unchanged; no other node queues anything; the origin receives   *)
(* exactly one NETWORK_ACK iff the type is acknowledged and the route has an    *)
(* intermediate node (and it is then what WriteOutcome says it waits for);      *)
(* everything ends after at most 2 x 8 transmissions.                           *)
(* TraceDispatch binds Outcome / WriteOutcome to the code vector by vector;     *)
(* this module shows the vector-level contract adds up to the end-to-end one.   *)
EXTENDS NetDispatch, FiniteSets, TLC
CONSTANTS Where            \* "quick" (levels 0..3 + samples) or "all" (781 nodes)
S == IF Where = "quick" THEN NodesTo3 ELSE Nodes
Px == 204
Sx == <<195, 60, 51, 206, 62, 227>>
Types == {0, 65}
Cfg(a) == [addr |-> a, lvl |-> Level(a), role |-> "net", allowMc |-> TRUE, relay |-> FALSE, retSys |-> FALSE, parent |-> TRUE, dhcp |-> <<>>]
VARIABLES src, dst, typ, flight, queuedAt, acks, ntx, waits
vars == <<src, dst, typ, flight, queuedAt, acks, ntx, waits>>
Fl(t) == [at |-> t.hop, h |-> UnpackHdr(t.data)]
Init == /\ src \in S /\ dst \in S /\ src # dst /\ typ \in Types
        /\ LET w == WriteOutcome(Cfg(src), Hdr(0, dst, 7, typ, 0), <<>>, Auto, Px, Sx) IN
           /\ flight = {Fl(w.tx[i]) : i \in 1..Len(w.tx)} /\ waits = w.waits /\ ntx = Len(w.tx)
        /\ queuedAt = <<>> /\ acks = 0
Step(f) == LET o == Outcome(Cfg(f.at), f.h, <<>>, Px, Sx) IN
           /\ flight' = (flight \ {f}) \cup {Fl(o.tx[i]) : i \in 1..Len(o.tx)}
           /\ queuedAt' = (IF o.queued THEN Append(queuedAt, <<f.at, f.h>>) ELSE queuedAt)
           /\ acks' = (IF f.at = src /\ f.h.to = src /\ f.h.type = TNetAck THEN acks + 1 ELSE acks)
           /\ ntx' = ntx + Len(o.tx)
           /\ UNCHANGED <<src, dst, typ, waits>>
Next == \E f \in flight : Step(f)
Spec == Init /\ [][Next]_vars
Done == flight = {}
C05_DeliveredOnceUnchanged == Done => queuedAt = <<<<dst, Hdr(src, dst, 7, typ, 0)>>>>
C05_NoBystander == \A i \in 1..Len(queuedAt) : queuedAt[i][1] = dst
C13_AckOnce == Done => acks = (IF IsAckT(typ) /\ NextHop(src, dst) # dst THEN 1 ELSE 0)
C13_WaitsIffOwed == waits = (IsAckT(typ) /\ NextHop(src, dst) # dst)
Bounded == ntx <= 16
InTree == \A f \in flight : f.at \in Nodes
=============================================================================
