------------------------------ MODULE TraceLink ------------------------------
(* Total trace monitor for C01 / C02 / C20 over executions of the real        *)
(* drivers (RF24 and rf24_lite, either end) on the radio double.              *)
(* A trace is [cfg, ev]; cfg = the link configuration established through the *)
(* public API; events are calls with their results plus the ground truth of   *)
(* the air during the call's window and what the peer's read() returned.      *)
EXTENDS Link, Json, IOUtils
Traces == JsonDeserialize(IOEnv.TRACE_FILE)
VARIABLES tid, l, verdict, failed,    \* failed: on-air bytes of the payload left in the TX FIFO by a failed call
          pend                        \* ACK payloads that send_only calls left in the transmitter's RX FIFO since it was last
                                      \* known to be empty (Unknown after a call that may flush it)
tvars == <<tid, l, verdict, failed, pend>>
T == Traces[tid]
C == T.cfg
None == <<-1>>

\* ---- send()/write() of ONE buffer
SendClause(e) ==
  LET data == OnAir(C, e.buf)  air == e.air IN
  IF e.buf_after # e.buf \/ ~e.same_obj THEN <<"C01.BufferIntact", "caller's buffer modified">>
  ELSE IF Rejected(C, e.buf) \/ (C.lite_tx /\ (Len(e.buf) = 0 \/ Len(e.buf) > 32)) THEN
       (IF e.exc # "ValueError" THEN <<"C01.Reject", "expected ValueError, got " \o e.exc>>
        ELSE IF e.ntxcmd > 0 \/ Len(air) > 0 THEN <<"C01.Reject", "rejected payload reached the radio">>
        ELSE <<"ok", "">>)
  ELSE IF e.exc = "Hang" THEN <<"C02.Bounded", "the call never returned">>
  ELSE IF e.exc # "none" THEN <<"C01.Reject", "valid payload raised " \o e.exc>>
  ELSE IF \E i \in 1..Len(air) : air[i].data # data THEN <<"C02.OnlyOwnPayload", "foreign payload on air during the call">>
  ELSE IF \E i \in 1..Len(air) : air[i].want_ack # (C.aa0 /\ ~(e.ask_no_ack /\ C.dynack))
       THEN <<"C02.AckRequest", IF e.ask_no_ack THEN "the packet on air requests an acknowledgement although the caller asked for none"
                                ELSE "the packet on air requests no acknowledgement although the caller did not ask for that">>
  ELSE IF e.lossfree /\ ~(\E i \in 1..Len(air) : air[i].new)
       THEN <<"C01.Delivered", "compatible configuration, listening peer, loss-free medium: the payload never reached the peer">>
  ELSE IF e.api = "write" THEN                                   \* non-blocking: only content / pipe / order matter
       (IF ~Emitted(air, data) THEN <<"C01.Content", "write() put nothing on the air">> ELSE <<"ok", "">>)
  ELSE IF Truthy(e.res) # Done(air, data) THEN
       <<"C02.TrueIffDone", IF Truthy(e.res) THEN "truthy result but the transmission was never completed"
                            ELSE "False although the radio completed the transmission">>
  ELSE IF ~Truthy(e.res) /\ Len(air) # Attempts(C, e.fr) THEN
       <<"C02.FalseIffExhausted", "returned False after " \o ToString(Len(air)) \o " of " \o ToString(Attempts(C, e.fr)) \o " attempts">>
  ELSE IF Truthy(e.res) /\ (\E i \in 1..Len(air) : (air[i].ack_ok \/ ~air[i].want_ack) /\ i < Len(air))
       THEN <<"C02.TrueIffDone", "transmitted again after completion">>
  ELSE IF Truthy(e.res) /\ C.ackpl /\ ~e.send_only /\ air[Len(air)].ack_ok /\
          (IF Len(air[Len(air)].ack) = 0 THEN e.res.t # "bool" ELSE (e.res.t # "bytes" \/ e.res.v # air[Len(air)].ack))
       THEN <<"C02.AckPayload", "result is not the ACK payload of the acknowledging attempt">>
  ELSE IF Truthy(e.res) /\ (~C.ackpl \/ e.send_only) /\ e.res.t # "bool" THEN <<"C02.AckPayload", "unexpected non-bool result">>
  ELSE IF e.t1 - e.t0 > CallBound(C, e.fr, Len(data)) THEN <<"C02.Bounded", ToString(e.t1 - e.t0) \o " us">>
  ELSE <<"ok", "">>

\* send() of a list: one result per payload, in order; each judged like a single send
SendListClause(e) ==
  LET n == Len(e.bufs)  D == [i \in 1..n |-> OnAir(C, e.bufs[i])]  air == e.air
      Sub(i) == SelectSeq(air, LAMBDA p : p.data = D[i])
      FirstIdx(i) == CHOOSE k \in 1..Len(air) : air[k].data = D[i] /\ \A j \in 1..(k - 1) : air[j].data # D[i] IN
  IF e.buf_after # e.bufs \/ ~e.same_obj THEN <<"C01.BufferIntact", "caller's buffers modified">>
  ELSE IF e.exc # "none" THEN <<"C01.Reject", "valid payloads raised " \o e.exc>>
  ELSE IF e.res.t # "list" \/ Len(e.res.v) # n THEN <<"C02.ListShape", "result is not one entry per payload">>
  ELSE IF \E k \in 1..Len(air) : \A i \in 1..n : air[k].data # D[i] THEN <<"C02.OnlyOwnPayload", "foreign payload on air">>
  ELSE IF e.lossfree /\ (\E i \in 1..n : ~\E k \in 1..Len(air) : air[k].data = D[i] /\ air[k].new)
       THEN <<"C01.Delivered", "compatible configuration, listening peer, loss-free medium: a payload of the list never reached the peer">>
  ELSE IF \E i \in 1..n : Truthy(e.res.v[i]) # Done(Sub(i), D[i]) THEN <<"C02.TrueIffDone", "list result contradicts the air">>
  ELSE IF \E i \in 1..n : ~Truthy(e.res.v[i]) /\ Len(Sub(i)) # Attempts(C, e.fr) THEN <<"C02.FalseIffExhausted", "list element gave up early">>
  ELSE IF \E i, j \in 1..n : i < j /\ Sub(i) # <<>> /\ Sub(j) # <<>> /\ FirstIdx(j) < FirstIdx(i)
       THEN <<"C02.ListShape", "payloads transmitted out of order">>
  ELSE <<"ok", "">>

NewOnes(air) == SelectSeq(air, LAMBDA p : p.new)
\* the streaming idiom: write(write_only=True) several times with CE low, then CE high.  Every payload write() accepted
\* (returned True for) goes out exactly once, in order; a refused one never does
StreamClause(e) ==
  LET n == Len(e.bufs)  D == [i \in 1..n |-> OnAir(C, e.bufs[i])]
      Acc == SelectSeq([i \in 1..n |-> <<D[i], e.rets[i]>>], LAMBDA x : x[2])
      New == NewOnes(e.air) IN
  IF e.exc # "none" THEN <<"C01.Reject", "valid payloads raised " \o e.exc>>
  ELSE IF Len(e.rets) # n THEN <<"C01.OnceInOrder", "not every write() returned">>
  ELSE IF \E k \in 1..Len(e.air) : \A i \in 1..n : e.air[k].data # D[i] THEN <<"C02.OnlyOwnPayload", "foreign payload on air">>
  ELSE IF \E i \in 1..n : ~e.rets[i] /\ Emitted(e.air, D[i]) THEN <<"C01.OnceInOrder", "a payload write() refused was transmitted">>
  ELSE IF Len(New) < Len(Acc) THEN <<"C01.OnceInOrder", "write() returned True for a payload that never reached the peer">>
  ELSE IF Len(New) > Len(Acc) THEN <<"C01.OnceInOrder", "a payload was delivered twice">>
  ELSE IF \E i \in 1..Len(Acc) : New[i].data # Acc[i][1] THEN <<"C01.OnceInOrder", "payloads delivered out of order">>
  ELSE IF \E i \in 1..(IF n < 3 THEN n ELSE 3) : ~e.rets[i] THEN <<"C01.OnceInOrder", "write() refused a payload although the TX FIFO had room">>
  ELSE <<"ok", "">>

ResendClause(e) ==
  LET air == e.air IN
  IF failed = None THEN
     (IF Truthy(e.res) \/ Len(air) > 0 THEN <<"C02.ResendIsFailed", "resend() with an empty TX FIFO transmitted or returned truthy">>
      ELSE <<"ok", "">>)
  ELSE IF \E i \in 1..Len(air) : air[i].data # failed THEN <<"C02.ResendIsFailed", "resend() emitted another payload">>
  ELSE IF Truthy(e.res) # Done(air, failed) THEN <<"C02.TrueIffDone", "resend() result contradicts the air">>
  ELSE IF ~Truthy(e.res) /\ Len(air) # Attempts(C, 0) THEN <<"C02.FalseIffExhausted", "resend() returned False early">>
  ELSE IF Truthy(e.res) /\ C.ackpl /\ ~e.send_only /\ air[Len(air)].ack_ok /\
          (IF Len(air[Len(air)].ack) = 0 THEN e.res.t # "bool" ELSE (e.res.t # "bytes" \/ e.res.v # air[Len(air)].ack))
       THEN <<"C02.AckPayload", "resend() result is not the ACK payload of the acknowledging attempt">>
  ELSE IF e.t1 - e.t0 > CallBound(C, 0, Len(failed)) THEN <<"C02.Bounded", ToString(e.t1 - e.t0) \o " us">>
  ELSE <<"ok", "">>

\* what the peer's read() handed out after the call: exactly the newly delivered payloads, in order, on the addressed pipe
DrainClause(e, prev) ==
  LET want == [i \in 1..Len(NewOnes(prev.air)) |->
                 <<C.rxpipe, IF C.rxdyn THEN NewOnes(prev.air)[i].data ELSE PadTrunc(NewOnes(prev.air)[i].data, C.rxpl)>>] IN
  IF Len(e.got) > Len(want) THEN <<"C01.OnceInOrder", "peer read more payloads than were delivered">>
  ELSE IF Len(e.got) < Len(want) THEN <<"C01.OnceInOrder", "a delivered payload was not returned by read()">>
  ELSE IF \E i \in 1..Len(want) : e.got[i][2] # want[i][2] THEN <<"C01.Content", "read() returned different bytes">>
  ELSE IF \E i \in 1..Len(want) : e.got[i][1] # want[i][1] THEN <<"C01.Pipe", "payload attributed to another pipe">>
  ELSE <<"ok", "">>

Unknown == <<<<-2>>>>
\* the ACK payloads that reached the transmitter during a call (ground truth of the air)
AckPls(air) == LET idx == {i \in 1..Len(air) : air[i].ack_ok /\ Len(air[i].ack) > 0} IN
               [k \in 1..Cardinality(idx) |-> air[CHOOSE i \in idx : Cardinality({j \in idx : j < i}) = k - 1].ack]
\* a call made with send_only leaves the RX FIFO alone: what earlier send_only calls left there is still there, what this
\* call's acknowledgement carried is appended (the FIFO holds three); any other call may flush it
PendAfter(e) == IF pend # Unknown /\ "send_only" \in DOMAIN e /\ e.send_only /\ e.exc = "none" /\ C.ackpl
                THEN (IF Len(pend \o AckPls(e.air)) <= 3 THEN pend \o AckPls(e.air) ELSE Unknown)
                ELSE Unknown
TxReadClause(e) ==
  IF Len(e.air) > 0 THEN <<"C02.OnlyOwnPayload", "reading the RX FIFO transmitted something">>
  ELSE IF pend # Unknown /\ e.got # pend
       THEN <<"C02.AckPayload", "ACK payloads that send_only calls left for read() are gone: read " \o ToString(Len(e.got)) \o " of " \o ToString(Len(pend))>>
  ELSE <<"ok", "">>
TInit == tid \in 1..Len(Traces) /\ l = 1 /\ verdict = <<"ok", "">> /\ failed = None /\ pend = <<>>
Step == /\ l <= Len(T.ev) /\ l' = l + 1 /\ tid' = tid
        /\ pend' = (LET e == T.ev[l] IN
                    IF e.k \in {"send", "resend"} THEN PendAfter(e)
                    ELSE IF e.k = "txread" THEN <<>>            \* read until empty
                    ELSE IF e.k = "drain" THEN pend             \* (the peer reads its own FIFO)
                    ELSE Unknown)
        /\ LET e == T.ev[l] IN
           CASE e.k = "send" -> /\ verdict' = SendClause(e)
                                /\ failed' = IF e.exc = "none" /\ e.api = "send" /\ ~Truthy(e.res) THEN OnAir(C, e.buf)
                                             ELSE IF e.exc = "none" THEN None ELSE failed
             [] e.k = "sendlist" -> /\ verdict' = SendListClause(e)
                                    /\ failed' = IF e.exc = "none" /\ e.res.t = "list" /\ Len(e.res.v) > 0 /\ ~Truthy(e.res.v[Len(e.res.v)])
                                                 THEN OnAir(C, e.bufs[Len(e.bufs)]) ELSE None
             [] e.k = "resend" -> /\ verdict' = ResendClause(e)
                                  /\ failed' = IF Truthy(e.res) THEN None ELSE failed
             [] e.k = "stream" -> verdict' = StreamClause(e) /\ failed' = None
             [] e.k = "queue" -> /\ verdict' = (IF Len(e.air) > 0 THEN <<"C02.OnlyOwnPayload", "write_only payloads were transmitted while CE is low">> ELSE <<"ok", "">>)
                                 /\ failed' = None
             [] e.k = "rxturn" -> /\ verdict' = (IF Len(e.air) > 0 THEN <<"C02.OnlyOwnPayload", "a turn as receiver transmitted something">> ELSE <<"ok", "">>)
                                  /\ failed' = None        \* (leaving RX mode with ACK payloads enabled empties the TX FIFO)
             [] e.k = "ctx" -> /\ verdict' = (IF Len(e.air) > 0 THEN <<"C02.OnlyOwnPayload", "leaving / entering the context transmitted something">>
                                              ELSE IF e.exc # "none" THEN <<"C02.Bounded", "leaving / entering the context raised " \o e.exc>>
                                              ELSE <<"ok", "">>)
                               /\ failed' = failed        \* the failed payload is still the one resend() re-sends
             [] e.k = "txread" -> /\ verdict' = TxReadClause(e)
                                  /\ failed' = failed       \* reading ACK payloads does not touch the failed payload
             [] e.k = "drain" -> verdict' = DrainClause(e, T.ev[l - 1]) /\ failed' = failed
TSpec == TInit /\ [][Step]_tvars
Report == (verdict[1] # "ok" \/ l > Len(T.ev)) => PrintT("VERDICT " \o ToString(<<tid, l - 1, verdict[1], verdict[2]>>))
=============================================================================
