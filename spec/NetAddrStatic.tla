--------------------------- MODULE NetAddrStatic ---------------------------
(* evaluates the static C04 clauses of NetAddrTable on the implementation tables and prints one verdict each *)
EXTENDS NetAddrTable
ASSUME PrintT("CLAUSE C04.Unique " \o ToString(OwnersVerified))
ASSUME PrintT("CLAUSE C04.PipesShareBase " \o ToString(PipesShareBase))
ASSUME PrintT("CLAUSE C04.AllOpen " \o ToString(AllOpen))
ASSUME PrintT("CLAUSE C04.LevelShared " \o ToString(LevelShared))
ASSUME PrintT("CLAUSE C04.McastToLevel " \o ToString(McastToLevel))
ASSUME PrintT("CLAUSE drift.PhysAddrAgreesWithSpec " \o ToString(SpecAgrees))
McOk(i, l) == (T.addrs[i] = 0 /\ l = 0) \/ ~HasLevel(l) \/ T.mc[i][l + 1] = LvlA(l)
ASSUME PrintT("DETAIL badmc " \o ToString({<<T.addrs[x[1]], x[2]>> : x \in {y \in McSrc \X (0..4) : T.mcast /\ ~McOk(y[1], y[2])}}))
SInit == si = 0 /\ di = 0 /\ ci = 0 /\ nh = 0
SNext == UNCHANGED tvars
=============================================================================
