------------------------------ MODULE Nrf24Chip ------------------------------
(* L0: Enhanced ShockBurst between one PTX and one PRX nRF24L01+ at the level  *)
(* of SPI commands and radio-internal steps (datasheet 7.3-7.8, 8.3-8.4).      *)
(* This is the normative statement of what "the radio" means in every check;   *)
(* the executable double harness/sim.py is conformance-checked against it:     *)
(* TLC explores the model, every edge of the state graph is replayed on two    *)
(* SimChip objects and all FIFOs / flags / counters are compared after every    *)
(* step (checks/chipconf.py, run by C10's thorough tier and by setup).         *)
(* Configuration is fixed (PTX: PWR_UP, PRIM_TX, EN_AA.0, pipe 0 = TX_ADDR;    *)
(* PRX: PRIM_RX, pipe 1 on that address, EN_AA, DPL, ACK payloads enabled).    *)
EXTENDS Integers, Sequences, FiniteSets, TLC
CONSTANTS ARC,          \* SETUP_RETR.ARC of the PTX
          Payloads,     \* payload ids the MCU may load
          MaxSteps
Fates == {"lost", "acklost", "acked"}

VARIABLES
  \* PTX
  tTx,      \* TX FIFO: sequence of [d, pid, noack]
  tRx,      \* RX FIFO (ACK payloads land here on pipe 0): sequence of [pipe, d]
  tDr, tDs, tDf, tCe, busy, arcCnt, plos, pid,
  \* PRX
  rTx,      \* TX FIFO: W_ACK_PAYLOAD entries [pipe, d]
  rRx, rDr, rDs, rCe,
  lastRx,   \* <<pid, d>> of the previous packet (duplicate filter)
  pend,     \* TRUE when the head ACK payload has been attached to an ACK and awaits the next NEW packet
  steps
vars == <<tTx, tRx, tDr, tDs, tDf, tCe, busy, arcCnt, plos, pid, rTx, rRx, rDr, rDs, rCe, lastRx, pend, steps>>

Init == /\ tTx = <<>> /\ tRx = <<>> /\ tDr = FALSE /\ tDs = FALSE /\ tDf = FALSE /\ tCe = FALSE /\ busy = FALSE
        /\ arcCnt = 0 /\ plos = 0 /\ pid = 0
        /\ rTx = <<>> /\ rRx = <<>> /\ rDr = FALSE /\ rDs = FALSE /\ rCe = TRUE /\ lastRx = <<-1, -1, FALSE>> /\ pend = FALSE
        /\ steps = 0
Tick == steps < MaxSteps /\ steps' = steps + 1
\* the PTX starts a cycle when CE is high, a payload waits and MAX_RT is clear; a running cycle finishes regardless of CE
Startable(tx, ce, df) == ce /\ tx # <<>> /\ ~df
Kick(tx, ce, df, b) == b \/ Startable(tx, ce, df)

\* ---------------- MCU commands on the PTX
WTx(d, na) == /\ Tick /\ Len(tTx) < 3
              /\ pid' = (pid + 1) % 4 /\ tTx' = Append(tTx, [d |-> d, pid |-> (pid + 1) % 4, noack |-> na])
              /\ busy' = Kick(Append(tTx, [d |-> d, pid |-> (pid + 1) % 4, noack |-> na]), tCe, tDf, busy)
              /\ arcCnt' = (IF ~busy /\ Startable(Append(tTx, [d |-> d, pid |-> (pid + 1) % 4, noack |-> na]), tCe, tDf) THEN 0 ELSE arcCnt)
              /\ UNCHANGED <<tRx, tDr, tDs, tDf, tCe, plos, rTx, rRx, rDr, rDs, rCe, lastRx, pend>>
TCe(b) == /\ Tick /\ tCe # b /\ tCe' = b /\ busy' = Kick(tTx, b, tDf, busy)
          /\ arcCnt' = (IF ~busy /\ Startable(tTx, b, tDf) THEN 0 ELSE arcCnt)
          /\ UNCHANGED <<tTx, tRx, tDr, tDs, tDf, plos, pid, rTx, rRx, rDr, rDs, rCe, lastRx, pend>>
TClear(a, b, c) == /\ Tick /\ (a \/ b \/ c)
                   /\ tDr' = (tDr /\ ~a) /\ tDs' = (tDs /\ ~b) /\ tDf' = (tDf /\ ~c)
                   /\ busy' = Kick(tTx, tCe, tDf /\ ~c, busy)
                   /\ arcCnt' = (IF ~busy /\ Startable(tTx, tCe, tDf /\ ~c) THEN 0 ELSE arcCnt)
                   /\ UNCHANGED <<tTx, tRx, tCe, plos, pid, rTx, rRx, rDr, rDs, rCe, lastRx, pend>>
TFlushTx == /\ Tick /\ tTx # <<>> /\ tTx' = <<>> /\ busy' = FALSE      \* ends a running cycle
            /\ UNCHANGED <<tRx, tDr, tDs, tDf, tCe, arcCnt, plos, pid, rTx, rRx, rDr, rDs, rCe, lastRx, pend>>
TRead == /\ Tick /\ tRx # <<>> /\ tRx' = Tail(tRx)
         /\ UNCHANGED <<tTx, tDr, tDs, tDf, tCe, busy, arcCnt, plos, pid, rTx, rRx, rDr, rDs, rCe, lastRx, pend>>
\* ---------------- MCU commands on the PRX
RAck(d) == /\ Tick /\ Len(rTx) < 3 /\ rTx' = Append(rTx, [pipe |-> 1, d |-> d])
           /\ UNCHANGED <<tTx, tRx, tDr, tDs, tDf, tCe, busy, arcCnt, plos, pid, rRx, rDr, rDs, rCe, lastRx, pend>>
RRead == /\ Tick /\ rRx # <<>> /\ rRx' = Tail(rRx)
         /\ UNCHANGED <<tTx, tRx, tDr, tDs, tDf, tCe, busy, arcCnt, plos, pid, rTx, rDr, rDs, rCe, lastRx, pend>>
RCe(b) == /\ Tick /\ rCe # b /\ rCe' = b
          /\ UNCHANGED <<tTx, tRx, tDr, tDs, tDf, tCe, busy, arcCnt, plos, pid, rTx, rRx, rDr, rDs, lastRx, pend>>
RFlushTx == /\ Tick /\ rTx # <<>> /\ rTx' = <<>> /\ pend' = FALSE
            /\ UNCHANGED <<tTx, tRx, tDr, tDs, tDf, tCe, busy, arcCnt, plos, pid, rRx, rDr, rDs, rCe, lastRx>>

\* ---------------- one attempt of the running cycle; the medium chooses the fate
Attempt(f) ==
  /\ Tick /\ busy /\ tTx # <<>>
  /\ LET e == Head(tTx)
         hears == rCe /\ f # "lost"                         \* the PRX is listening and the packet reaches it
         dup == hears /\ lastRx = <<e.pid, e.d, e.noack>>       \* same PID and CRC as the previous packet
         full == hears /\ ~dup /\ Len(rRx) >= 3
         takes == hears /\ ~dup /\ ~full                    \* queued as a new payload
         \* ACK payload handling at the PRX
         release == takes /\ pend                           \* previous ACK payload is now known to be delivered
         rTx1 == IF release THEN Tail(rTx) ELSE rTx
         attach == (takes \/ dup) /\ ~e.noack /\ rTx1 # <<>> \* the ACK carries the oldest waiting ACK payload
         acks == (takes \/ dup) /\ ~e.noack
         gotAck == acks /\ f = "acked"
         done == e.noack \/ gotAck                          \* TX_DS
     IN
     /\ rRx' = (IF takes THEN Append(rRx, [pipe |-> 1, d |-> e.d]) ELSE rRx)
     /\ rDr' = (rDr \/ takes)
     /\ lastRx' = (IF takes THEN <<e.pid, e.d, e.noack>> ELSE lastRx)
     /\ rTx' = rTx1
     /\ rDs' = (rDs \/ release)
     /\ pend' = (IF attach THEN TRUE ELSE IF release THEN FALSE ELSE pend)
     /\ IF done
        THEN /\ tTx' = Tail(tTx) /\ tDs' = TRUE /\ tDf' = tDf /\ plos' = plos
             /\ arcCnt' = (IF Startable(Tail(tTx), tCe, tDf) THEN 0 ELSE arcCnt)
             /\ tRx' = (IF gotAck /\ attach /\ Len(tRx) < 3 THEN Append(tRx, [pipe |-> 0, d |-> Head(rTx1).d]) ELSE tRx)
             /\ tDr' = (tDr \/ (gotAck /\ attach /\ Len(tRx) < 3))
             /\ busy' = Startable(Tail(tTx), tCe, tDf)
        ELSE IF arcCnt < ARC
        THEN /\ arcCnt' = arcCnt + 1 /\ UNCHANGED <<tTx, tRx, tDr, tDs, tDf, plos, busy>>
        ELSE /\ tDf' = TRUE /\ plos' = (IF plos < 15 THEN plos + 1 ELSE 15) /\ busy' = FALSE
             /\ UNCHANGED <<tTx, tRx, tDr, tDs, arcCnt>>
  /\ UNCHANGED <<tCe, pid, rCe>>

Next == \/ \E d \in Payloads, na \in BOOLEAN : WTx(d, na)
        \/ \E b \in BOOLEAN : TCe(b) \/ RCe(b)
        \/ \E a, b, c \in BOOLEAN : TClear(a, b, c)
        \/ TFlushTx \/ TRead \/ RRead \/ RFlushTx
        \/ \E d \in Payloads : RAck(d)
        \/ \E f \in Fates : Attempt(f)
Spec == Init /\ [][Next]_vars

\* ---------------- datasheet invariants
FifoBounds == Len(tTx) <= 3 /\ Len(tRx) <= 3 /\ Len(rTx) <= 3 /\ Len(rRx) <= 3
MaxRtBlocks == tDf => ~busy                                   \* MAX_RT asserted: no transmission until it is cleared
BusyHasPayload == busy => tTx # <<>>
\* a payload acknowledged to the PTX was queued at the PRX (exactly-once hand-off is C01/C02's business on top of this)
ArcWithin == arcCnt <= ARC
=============================================================================
