--------------------------- MODULE ReassemblyGen ---------------------------
(* Fault-pattern generator for C06: the environment actions of Reassembly    *)
(* with the history of events kept in `pat`, so that every reachable state is *)
(* one delivery pattern (a path of the Reassembly state graph).  TLC          *)
(* enumerates them exhaustively to the bound; each is replayed on the real    *)
(* FrameQueueFrag.  The application may dequeue at any point - also when the  *)
(* reference reassembler has nothing queued (the implementation might).       *)
EXTENDS Reassembly
CONSTANT MaxLen
VARIABLE pat
gvars == <<vars, pat>>
MsgSeq == SetToSeq(Msgs)
GInit == Init /\ pat = <<>>
GRecv(i, k) == Recv(MsgSeq[i], k) /\ pat' = Append(pat, <<i, k>>)
GDeq == /\ pat # <<>> /\ pat[Len(pat)] # <<0, 0>>
        /\ pat' = Append(pat, <<0, 0>>)
        /\ (IF q # <<>> THEN DeqApp ELSE UNCHANGED vars)
GNext == (\E i \in 1..Len(MsgSeq), k \in 1..7 : GRecv(i, k)) \/ GDeq
GSpec == GInit /\ [][GNext]_gvars
Depth == Len(pat) <= MaxLen
\* export: one line per complete pattern
ASSUME PrintT("MSGS " \o ToString(MsgSeq))
Emit == (Len(pat) = MaxLen) => PrintT("PAT " \o ToString(pat))
=============================================================================
