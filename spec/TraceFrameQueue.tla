------------------------- MODULE TraceFrameQueue -------------------------
(* Total trace monitor for C12: consumes histories recorded from the real   *)
(* FrameQueue / FrameQueueFrag (direct use and through a node's             *)
(* `fragmentation` setter), drives the reference model with FrameQueue's own *)
(* actions and names the first C12 clause an observation contradicts.       *)
EXTENDS FrameQueue, Json, IOUtils
Traces == JsonDeserialize(IOEnv.TRACE_FILE)
VARIABLES tid, l, verdict
tvars == <<vars, tid, l, verdict>>
Tr == Traces[tid]

TInit == Init /\ tid \in 1..Len(Traces) /\ l = 1 /\ verdict = <<"ok", "">>

Fr(j) == [from |-> j.from, id |-> j.id, type |-> j.type, body |-> j.body]   \* JSON object -> frame
ObsFront(e) == IF e.has THEN Fr(e.res) ELSE NoFrame

\* which clause a wrong dequeue/peek answer contradicts
FrontClause(e, was) ==
  IF ObsFront(e) = Front(was) THEN "ok"
  ELSE IF e.has /\ was # <<>> /\ Key(Fr(e.res)) = Key(Head(was)) THEN "C12.Snapshot"   \* right frame, altered content
  ELSE IF e.has /\ (\E i \in 1..Len(was) : was[i] = Fr(e.res)) THEN "C12.Fifo"          \* wrong order
  ELSE "C12.Once"                                                                        \* lost, repeated or invented

EnqClause(e) ==
  IF e.res = EnqOk(q, max, Fr(e.f)) THEN "ok"
  ELSE IF e.res /\ Len(q) >= max THEN "C12.Bound"
  ELSE IF e.res THEN "C12.NoDup"
  ELSE "C12.EnqueueResult"

\* frames are private copies in both directions: what dequeue() handed out earlier never changes afterwards, two dequeues
\* never hand out one object, and the queue never stores (or hands back) the object the caller passed in; the harness
\* re-inspects every object it ever passed in or got back after each call and reports the first discrepancy in e.alias
V(e, x) == IF "alias" \in DOMAIN e /\ e.alias # "" THEN <<"C12.Snapshot", e.alias>> ELSE x

Step ==
  /\ verdict[1] = "ok" /\ l <= Len(Tr) /\ l' = l + 1 /\ tid' = tid
  /\ LET e == Tr[l] IN
     \/ /\ e.op = "enq" /\ Enq(Fr(e.f), e.how)
        /\ verdict' = V(e, IF EnqClause(e) # "ok" THEN <<EnqClause(e), "enqueue result">>
                      ELSE IF e.len # Len(q') THEN <<"C12.Fifo", "length after enqueue">>
                      ELSE IF e.max # max THEN <<"C12.MovePreserves", "max_queue_size changed">>
                      ELSE <<"ok", "">>)
     \/ /\ e.op = "enqfrag" /\ frag /\ EnqFrag(Fr(e.f))
        /\ verdict' = V(e, IF ~e.first THEN <<"C12.EnqueueResult", "first fragment refused">>
                      ELSE IF EnqClause(e) # "ok" THEN <<EnqClause(e), "enqueue result of the completing fragment">>
                      ELSE IF e.len # Len(q') THEN <<"C12.Fifo", "length after re-assembly">>
                      ELSE IF e.max # max THEN <<"C12.MovePreserves", "max_queue_size changed">>
                      ELSE <<"ok", "">>)
     \/ /\ e.op = "enqfrag" /\ ~frag /\ UNCHANGED vars /\ verdict' = <<"harness", "enqfrag recorded while fragmentation is off">>
     \/ /\ e.op = "deq" /\ Deq
        /\ verdict' = V(e, IF FrontClause(e, q) # "ok" THEN <<FrontClause(e, q), "dequeue result">>
                      ELSE IF e.len # Len(q') THEN <<"C12.Once", "length after dequeue">>
                      ELSE <<"ok", "">>)
     \/ /\ e.op = "peek" /\ Peek
        /\ verdict' = V(e, IF FrontClause(e, q) # "ok" THEN <<FrontClause(e, q), "peek result">>
                      ELSE IF e.len # Len(q) THEN <<"C12.Once", "peek changed the length">>
                      ELSE <<"ok", "">>)
     \/ /\ e.op = "setmax" /\ SetMax(e.n)
        /\ verdict' = V(e, IF e.len # Len(q) THEN <<"C12.Fifo", "length after max_queue_size change">>
                      ELSE IF e.max # e.n THEN <<"C12.MovePreserves", "max_queue_size not stored">> ELSE <<"ok", "">>)
     \/ /\ e.op = "toggle" /\ Toggle
        /\ verdict' = V(e, IF e.len # Len(q) \/ e.max # max THEN <<"C12.MovePreserves", "fragmentation toggle">>
                      ELSE <<"ok", "">>)

TSpec == TInit /\ [][Step]_tvars
Report == (verdict[1] # "ok" \/ l > Len(Tr)) => PrintT("VERDICT " \o ToString(<<tid, l - 1, verdict[1], verdict[2]>>))
=============================================================================
