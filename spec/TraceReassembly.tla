-------------------------- MODULE TraceReassembly --------------------------
(* Total trace monitor for C06.  A trace is [msgs, ev]: the messages the      *)
(* harness "sent" and the recorded events - fragment frames handed to the     *)
(* real node/queue and the frames its application dequeued.  The clauses are  *)
(* those of ReassemblyOps, evaluated on the observed delivery history.        *)
EXTENDS ReassemblyOps, Json, IOUtils
Traces == JsonDeserialize(IOEnv.TRACE_FILE)
VARIABLES tid, l, verdict, dl, rc
tvars == <<tid, l, verdict, dl, rc>>
T == Traces[tid]
Mrec(j) == [from |-> j.from, id |-> j.id, type |-> j.type, n |-> j.n, tag |-> j.tag]
TMsgs == {Mrec(T.msgs[i]) : i \in 1..Len(T.msgs)}
Fr(j) == [from |-> j.from, id |-> j.id, type |-> j.type, body |-> j.body]
FragRec(j) == [from |-> j.from, to |-> j.to, id |-> j.id, type |-> j.type, reserved |-> j.reserved, body |-> j.body]

TInit == /\ tid \in 1..Len(Traces) /\ l = 1 /\ verdict = <<"ok", "">> /\ dl = <<>>
         /\ rc = [x \in {<<Mrec(Traces[tid].msgs[i]), k>> : i \in 1..Len(Traces[tid].msgs), k \in 1..8} |-> 0]

\* unrelated single-frame messages the harness put into the queue ("plain" events): handing them out is genuine, once each
IsPlain(x)    == \E i \in 1..Len(T.ev) : i <= l /\ T.ev[i].op = "plain" /\ Fr(T.ev[i].fr) = x
NonPlain(d)   == SelectSeq(d, LAMBDA x : ~IsPlain(x))
PlainOnce(d)  == \A i \in 1..Len(d) : IsPlain(d[i]) => CountIn(d, d[i]) = 1

Step ==
  /\ verdict[1] = "ok" /\ l <= Len(T.ev) /\ l' = l + 1 /\ tid' = tid
  /\ LET e == T.ev[l] IN
     \/ /\ e.op = "plain" /\ UNCHANGED <<dl, rc>> /\ verdict' = verdict
     \/ /\ e.op = "recv"
        /\ LET m == Mrec(T.msgs[e.m]) IN
           /\ rc' = [rc EXCEPT ![<<m, e.k>>] = @ + 1]
           /\ verdict' = IF FragRec(e.fr) # Frag(m, e.k) THEN <<"harness", "frame fed to the code is not Frag(m,k)">>
                         ELSE <<"ok", "">>
        /\ dl' = dl
     \/ /\ e.op = "deq"
        /\ dl' = IF e.has THEN Append(dl, Fr(e.res)) ELSE dl
        /\ rc' = rc
        /\ verdict' = IF ~e.has THEN <<"ok", "">>
                      ELSE IF ~Genuine(NonPlain(dl'), TMsgs) THEN <<"C06.Genuine", "dequeued frame is no complete sent message">>
                      ELSE IF ~PlainOnce(dl') THEN <<"C06.AtMostOnce", "a single-frame message was handed out twice">>
                      ELSE IF ~AtMostOnce(NonPlain(dl'), TMsgs, rc) THEN <<"C06.AtMostOnce", "message delivered more often than its fragments arrived">>
                      ELSE <<"ok", "">>
TSpec == TInit /\ [][Step]_tvars
Report == (verdict[1] # "ok" \/ l > Len(T.ev)) => PrintT("VERDICT " \o ToString(<<tid, l - 1, verdict[1], verdict[2]>>))
=============================================================================
