SPECIFICATION Spec
CONSTANTS
  Where = "quick"
INVARIANT C05_DeliveredOnceUnchanged
INVARIANT C05_NoBystander
INVARIANT C13_AckOnce
INVARIANT C13_WaitsIffOwed
INVARIANT Bounded
INVARIANT InTree
CHECK_DEADLOCK FALSE
