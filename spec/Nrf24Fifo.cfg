SPECIFICATION Spec
CONSTANTS
  Pipes = {0, 1, 5}
  Lens = {1, 2}
INVARIANT FifoBounds
INVARIANT StatusShowsHead
PROPERTY ReadPopsOne
CHECK_DEADLOCK FALSE
