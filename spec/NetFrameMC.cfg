INIT Init
NEXT Next
CONSTANT MaxMsgLen = 144
INVARIANT RoundTrip
CHECK_DEADLOCK FALSE
