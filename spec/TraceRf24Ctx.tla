--------------------------- MODULE TraceRf24Ctx ---------------------------
(* Total trace monitor for C09 on the true register file of the radio double. *)
(* Events: ctor(o, post), enter(o, post), exit(o, pre, post).  est[o] is the   *)
(* image at the end of o's last block (or at constructor return).             *)
EXTENDS Rf24Api, Json, IOUtils
Traces == JsonDeserialize(IOEnv.TRACE_FILE)
VARIABLES tid, l, verdict, est
tvars == <<tid, l, verdict, est>>
Tr == Traces[tid].ev
St(j) == [c |-> j.c, aa |-> j.aa, en |-> j.en, aw |-> j.aw, retr |-> j.retr, ch |-> j.ch, rf |-> j.rf, dyn |-> j.dyn,
          feat |-> j.feat, pw |-> j.pw, p0 |-> j.p0, p1 |-> j.p1, p25 |-> j.p25, txa |-> j.txa, ce |-> j.ce]
\* configuration part: everything but PWR_UP and the CE pin
Cfg(s) == [s EXCEPT !.c = SetBit(s.c, 1, FALSE), !.ce = 0]
Differs(a, b) == {f \in Fields : a[f] # b[f]}
\* a network / mesh node is a receiver whenever it is not sending (C07): its block is entered in RX mode whatever role the
\* radio had when it left; the role bit is not part of what is compared for such objects
IsNode(o) == Traces[tid].kinds[o] \in {"net", "mesh"}
CfgO(o, s) == IF IsNode(o) THEN [Cfg(s) EXCEPT !.c = SetBit(@, 0, TRUE)] ELSE Cfg(s)
TInit == tid \in 1..Len(Traces) /\ l = 1 /\ verdict = <<"ok", "">> /\ est = <<>>
Step == /\ verdict[1] = "ok" /\ l <= Len(Tr) /\ l' = l + 1 /\ tid' = tid
        /\ LET e == Tr[l] IN
           CASE e.k = "ctor" -> est' = Append(est, Cfg(St(e.post))) /\ verdict' = <<"ok", "">>
             [] e.k = "enter" ->
                  /\ est' = est
                  /\ verdict' = IF e.exc # "none" THEN <<"C09.Restored", "__enter__ raised " \o e.exc>>
                                ELSE IF Differs(CfgO(e.o, St(e.post)), CfgO(e.o, est[e.o])) # {}
                                THEN <<"C09.Restored", ToString(Differs(CfgO(e.o, St(e.post)), CfgO(e.o, est[e.o])))>>
                                ELSE IF IsNode(e.o) /\ (Bit(e.post.c, 0) = 0 \/ e.post.ce = 0) THEN <<"C07.Listening", "a network node does not listen inside its block">>
                                ELSE IF Bit(e.post.c, 1) = 0 THEN <<"C09.Restored", "radio not powered up inside the block">>
                                ELSE <<"ok", "">>
             [] e.k = "exit" ->
                  /\ est' = [est EXCEPT ![e.o] = Cfg(St(e.pre))]
                  /\ verdict' = IF Bit(e.post.c, 1) = 1 \/ e.post.ce = 1 THEN <<"C09.Exit", "PWR_UP or CE still high after leaving the block">>
                                ELSE IF Differs(Cfg(St(e.post)), Cfg(St(e.pre))) # {}
                                     THEN <<"C09.Exit", "leaving the block changed " \o ToString(Differs(Cfg(St(e.post)), Cfg(St(e.pre))))>>
                                ELSE <<"ok", "">>
TSpec == TInit /\ [][Step]_tvars
Report == (verdict[1] # "ok" \/ l > Len(Tr)) => PrintT("VERDICT " \o ToString(<<tid, l - 1, verdict[1], verdict[2]>>))
=============================================================================
