SPECIFICATION Spec
CONSTANTS
  ARC = 1
  Payloads = {1, 2}
  MaxSteps = 5
INVARIANT FifoBounds
INVARIANT MaxRtBlocks
INVARIANT BusyHasPayload
INVARIANT ArcWithin
CHECK_DEADLOCK FALSE
