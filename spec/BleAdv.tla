------------------------------- MODULE BleAdv -------------------------------
(* C18, history part: a FakeBLE object (possibly sharing the radio with another *)
(* driver object) hops, is assigned channels and enters/leaves its context;     *)
(* whenever it advertises, the packet must be whitened for the advertising      *)
(* channel of the frequency the radio is tuned to.  The model generates the     *)
(* histories (every edge is replayed on the real FakeBLE) and states the        *)
(* invariant the contract implies: inside its own block the radio is tuned to   *)
(* the object's advertising frequency.                                          *)
EXTENDS Integers, Sequences, TLC
Freqs == <<2, 26, 80>>
NextFreq(f) == CASE f = 2 -> 26 [] f = 26 -> 80 [] f = 80 -> 2
VARIABLES rfch,   \* RF_CH register
          own,    \* advertising frequency the BLE object established
          blk,    \* 0 = no block open, 1 = the BLE object's, 2 = the other object's
          named,  \* a device name is set (leaving the object's block clears it again)
          last
vars == <<rfch, own, blk, named, last>>
Init == rfch = 26 /\ own = 26 /\ blk = 0 /\ named = FALSE /\ last = "init"     \* the constructor hops once: 2 -> 26
EnterBle   == blk = 0 /\ blk' = 1 /\ rfch' = own /\ own' = own /\ named' = named /\ last' = "enter"
ExitBlk    == blk # 0 /\ blk' = 0 /\ UNCHANGED <<rfch, own>> /\ named' = (named /\ blk # 1) /\ last' = "exit"
EnterOther == blk = 0 /\ blk' = 2 /\ rfch' = 76 /\ own' = own /\ named' = named /\ last' = "other"
Hop        == blk = 1 /\ own' = NextFreq(own) /\ rfch' = NextFreq(own) /\ blk' = blk /\ named' = named /\ last' = "hop"
SetCh(v)   == blk = 1 /\ blk' = blk /\ named' = named /\ last' = "set"
              /\ (IF v \in {2, 26, 80} THEN own' = v /\ rfch' = v ELSE UNCHANGED <<own, rfch>>)
SetName(b) == blk = 1 /\ named # b /\ named' = b /\ UNCHANGED <<rfch, own, blk>> /\ last' = "name"
Advertise  == blk = 1 /\ UNCHANGED <<rfch, own, blk, named>> /\ last' = "adv"
\* the application reads ble.channel (anywhere, also while the radio holds another object's configuration): a read changes nothing
ReadCh     == last # "read" /\ UNCHANGED <<rfch, own, blk, named>> /\ last' = "read"
Next == EnterBle \/ ExitBlk \/ EnterOther \/ Hop \/ (\E v \in {2, 26, 80, 50} : SetCh(v)) \/ (\E b \in BOOLEAN : SetName(b)) \/ Advertise \/ ReadCh
Spec == Init /\ [][Next]_vars
C18_TunedInOwnBlock == blk = 1 => rfch = own /\ own \in {2, 26, 80}
Depth == TLCGet("level") <= 7
=============================================================================
