------------------------------- MODULE BleLink -------------------------------
(* Bluetooth LE link layer for advertising channels, written bit-serially     *)
(* from the Bluetooth Core Specification (Vol 6 Part B: 1.2 bit ordering,     *)
(* 2.3 advertising PDU, 3.1.1 CRC, 3.2 whitening) - NOT from fake_ble.py.      *)
(* It is the independent reference decoder/encoder for C18 and C19.           *)
(* An nRF24L01 payload byte is sent MSbit first; BLE fields are LSbit first.  *)
EXTENDS Integers, Sequences, FiniteSets, TLC, SequencesExt

Xor(a, b) == (a + b) % 2
\* ---- bit streams
NrfBits(byte) == [i \in 1..8 |-> (byte \div (2^(8 - i))) % 2]              \* radio order of one payload byte
AirBits(bytes) == FoldLeft(LAMBDA acc, b : acc \o NrfBits(b), <<>>, bytes)   \* the on-air bit stream of a payload
ByteOfLsbFirst(bits) == bits[1] + 2 * bits[2] + 4 * bits[3] + 8 * bits[4] + 16 * bits[5] + 32 * bits[6] + 64 * bits[7] + 128 * bits[8]
LsbFirstBits(byte) == [i \in 1..8 |-> (byte \div (2^(i - 1))) % 2]
NrfByteOf(bits) == 128 * bits[1] + 64 * bits[2] + 32 * bits[3] + 16 * bits[4] + 8 * bits[5] + 4 * bits[6] + 2 * bits[7] + bits[8]
BytesOfAir(bits) == [k \in 1..(Len(bits) \div 8) |-> ByteOfLsbFirst(SubSeq(bits, 8 * k - 7, 8 * k))]   \* BLE octets
NrfBytesOfAir(bits) == [k \in 1..(Len(bits) \div 8) |-> NrfByteOf(SubSeq(bits, 8 * k - 7, 8 * k))]    \* payload octets

\* ---- channel index of an advertising frequency (RF_CH = MHz - 2400)
ChIdx(rfch) == CASE rfch = 2 -> 37 [] rfch = 26 -> 38 [] rfch = 80 -> 39 [] OTHER -> -1

\* ---- whitening (3.2): 7-bit LFSR x^7 + x^4 + 1; position 0 = 1, positions 1..6 = channel index, MSB in position 1
WhitenInit(ch) == <<1>> \o [i \in 1..6 |-> (ch \div (2^(6 - i))) % 2]
WhitenStep(st, bit) ==      \* st = [p : the 7 positions (1-indexed: p[1] is position 0), out : bits so far]
  LET o == st.p[7] IN
  [p |-> <<o, st.p[1], st.p[2], st.p[3], Xor(st.p[4], o), st.p[5], st.p[6]>>, out |-> Append(st.out, Xor(bit, o))]
Whiten(bits, ch) == FoldLeft(WhitenStep, [p |-> WhitenInit(ch), out |-> <<>>], bits).out   \* its own inverse

\* ---- CRC-24 (3.1.1): x^24 + x^10 + x^9 + x^6 + x^4 + x^3 + x + 1, preset 0x555555 (position 0 = LSB),
\*      data bits enter in air order, the CRC is transmitted most significant position first
CrcInit == [i \in 1..24 |-> IF (i - 1) % 2 = 0 THEN 1 ELSE 0]     \* 0x555555: positions 0, 2, 4, ... set (index = position + 1)
CrcTaps == {1, 3, 4, 6, 9, 10}
CrcStep(s, bit) == LET fb == Xor(bit, s[24]) IN
  [i \in 1..24 |-> IF i = 1 THEN fb ELSE IF (i - 1) \in CrcTaps THEN Xor(s[i - 1], fb) ELSE s[i - 1]]
CrcBits(bits) == LET s == FoldLeft(CrcStep, CrcInit, bits) IN [i \in 1..24 |-> s[25 - i]]   \* position 23 first

\* ---- decoding an nRF24L01 payload received/loaded on advertising channel index ch
Decode(payload, ch) ==
  LET plain == Whiten(AirBits(payload), ch)
      oct   == BytesOfAir(plain)
      len   == oct[2] % 64
      end   == 2 + len IN
  IF ch < 0 \/ Len(oct) < 2 \/ end + 3 > Len(oct) THEN [ok |-> FALSE, why |-> "length", hdr |-> 0, len |-> 0, pdu |-> <<>>, rfu |-> FALSE]
  ELSE IF SubSeq(plain, 8 * end + 1, 8 * end + 24) # CrcBits(SubSeq(plain, 1, 8 * end))
       THEN [ok |-> FALSE, why |-> "crc", hdr |-> oct[1], len |-> len, pdu |-> SubSeq(oct, 1, end), rfu |-> oct[2] >= 64]
  ELSE [ok |-> TRUE, why |-> "", hdr |-> oct[1], len |-> len, pdu |-> SubSeq(oct, 1, end), rfu |-> oct[2] >= 64]   \* rfu: reserved upper bits of the length octet set

\* ---- encoding (independent encoder for C19): PDU octets -> nRF24L01 payload octets for channel index ch
Encode(pdu, ch) ==
  LET bits == FoldLeft(LAMBDA acc, b : acc \o LsbFirstBits(b), <<>>, pdu)
      all  == bits \o CrcBits(bits) IN
  NrfBytesOfAir(Whiten(all, ch))

\* ---- advertising data structures: sequence of [len, type, data...]
RECURSIVE AdStructs(_)
AdStructs(d) == IF d = <<>> THEN <<>>
                ELSE IF d[1] = 0 \/ d[1] + 1 > Len(d) THEN <<[bad |-> TRUE, type |-> 0, data |-> d]>>
                ELSE <<[bad |-> FALSE, type |-> d[2], data |-> SubSeq(d, 3, d[1] + 1)]>> \o AdStructs(SubSeq(d, d[1] + 2, Len(d)))
Ad(type, data) == <<Len(data) + 1, type>> \o data
Flatten(chunks) == FoldLeft(LAMBDA acc, c : acc \o c, <<>>, chunks)
SignedByte(b) == IF b >= 128 THEN b - 256 ELSE b
ByteOfSigned(v) == IF v < 0 THEN v + 256 ELSE v
=============================================================================
