SPECIFICATION Spec
CONSTANT WalkNodes <- NodesTo3
INVARIANT RouteBound
INVARIANT StaysValid
PROPERTY HopParentOrChild
PROPERTY UpThenDown
CHECK_DEADLOCK FALSE
