SPECIFICATION Spec
CONSTANTS
  Tree = {0, 1, 2, 9, 73}
  Relays = {1}
  NoMc = {2}
  Types = {1, 65}
  Lens = {1}
  FragLen = 1
  MaxWrites = 2
  MaxLoss = 2
  Concurrent = FALSE
  Redeliver = FALSE
  FreeTimeout = TRUE
INVARIANT C13_WaitOnlyIfNeeded
INVARIANT C13_TrueOnlyIfArrived
INVARIANT C13_AckOnce
INVARIANT C13_AckOnlyIfOwed
INVARIANT C05_AtMostOnce
INVARIANT C14_ExactlyLevel
PROPERTY NoEarlyFail
CHECK_DEADLOCK FALSE
