SPECIFICATION Spec
CONSTANTS
  Tree = {0, 1, 9}
  Relays = {}
  NoMc = {}
  Types = {65}
  Lens = {2}
  FragLen = 1
  MaxWrites = 1
  MaxLoss = 1
  Concurrent = FALSE
  Redeliver = FALSE
  FreeTimeout = TRUE
INVARIANT TrueMeansWholeMessageArrived
PROPERTY NoEarlyFail
CHECK_DEADLOCK FALSE
