SPECIFICATION Spec
CONSTANTS
  Tree = {0, 1, 9}
  Relays = {}
  NoMc = {}
  Types = {1, 65}
  Lens = {1, 3}
  FragLen = 1
  MaxWrites = 2
  MaxLoss = 0
  Concurrent = FALSE
  Redeliver = FALSE
  FreeTimeout = FALSE
INVARIANT C13_WaitOnlyIfNeeded
INVARIANT C13_TrueOnlyIfArrived
INVARIANT C13_AckOnce
INVARIANT C13_AckOnlyIfOwed
INVARIANT C05_AtMostOnce
INVARIANT C14_ExactlyLevel
INVARIANT C05_Delivered
PROPERTY NoEarlyFail
CHECK_DEADLOCK FALSE
