----------------------------- MODULE NetFrameMC -----------------------------
EXTENDS NetFrame
\* ---- design-level check on the specification itself: reassembly inverts fragmentation for every length
CONSTANT MaxMsgLen
VARIABLES len, ty
Init == len \in 0..MaxMsgLen /\ ty \in {0, 1, 65, 127}
Next == UNCHANGED <<len, ty>>
Msg(n) == [i \in 1..n |-> (i * 7 + n) % 256]
RoundTrip == LET h == Hdr(9, 73, 4660 + len, ty, 0)  fr == Fragments(h, Msg(len))  r == Tmrh20Reassemble(fr) IN
             /\ r.ok /\ r.msg = Msg(len) /\ r.type = ty /\ r.from = 9 /\ r.id = 4660 + len
             /\ Len(fr) = NFrags(len) /\ \A k \in 1..Len(fr) : Len(fr[k]) <= 32
             /\ UnpackHdr(PackHdr(h)) = h /\ Len(PackHdr(h)) = 8
=============================================================================
