INIT SInit
NEXT SNext
CHECK_DEADLOCK FALSE
