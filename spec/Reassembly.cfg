SPECIFICATION Spec
CONSTANTS
  Msgs <- MsgsQuick
  MaxCopies = 2
  MaxRecv = 7
INVARIANT C06_Genuine
INVARIANT C06_AtMostOnce
CHECK_DEADLOCK FALSE
