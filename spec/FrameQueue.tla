---------------------------- MODULE FrameQueue ----------------------------
(* L1 reference model of the RF24Network frame queue (property C12).           *)
(* A frame is [from, id, type, body]; its duplicate key is <<from, id, type>>. *)
(* The pure operators are shared by the exhaustive model below (whose state    *)
(* graph is replayed edge by edge on the real FrameQueue / FrameQueueFrag) and *)
(* by the total trace monitor TraceFrameQueue.                                 *)
EXTENDS Integers, Sequences, FiniteSets, TLC

Key(f) == <<f.from, f.id, f.type>>
HasDup(q, f) == \E i \in 1..Len(q) : Key(q[i]) = Key(f)

\* enqueue() stores the frame iff there is room and no queued frame has its key
EnqOk(q, max, f)   == Len(q) < max /\ ~HasDup(q, f)
EnqNext(q, max, f) == IF EnqOk(q, max, f) THEN Append(q, f) ELSE q
DeqNext(q)         == IF q = <<>> THEN q ELSE Tail(q)
NoFrame            == [from |-> -1, id |-> -1, type |-> -1, body |-> <<>>]
Front(q)           == IF q = <<>> THEN NoFrame ELSE Head(q)

NoDupIn(q)  == \A i, j \in 1..Len(q) : i # j => Key(q[i]) # Key(q[j])

CONSTANTS Frames,      \* the frames the environment may offer
          MaxSizes,    \* values the user may assign to max_queue_size
          MaxLen       \* state constraint on the queue length
VARIABLES q, max, frag, last, highWater
vars == <<q, max, frag, last, highWater>>

Init == q = <<>> /\ max = 6 /\ frag = TRUE /\ last = [op |-> "init"] /\ highWater = 6

\* how \in {"fresh", "mutate", "reuse", "str"}: what the caller does with its frame object ("str": the type is given as the
\* one-character string the header documents); it must not matter
Enq(f, how) == /\ q' = EnqNext(q, max, f)
               /\ last' = [op |-> "enq", res |-> EnqOk(q, max, f)]
               /\ UNCHANGED <<max, frag, highWater>>
\* the same frame arrives as a fragmented message (FIRST then LAST fragment, consecutively) while fragmentation is on:
\* the re-assembled message enters the queue under exactly the same rule, and the LAST fragment's enqueue() reports it
EnqFrag(f) == /\ frag /\ q' = EnqNext(q, max, f)
              /\ last' = [op |-> "enqfrag", res |-> EnqOk(q, max, f)]
              /\ UNCHANGED <<max, frag, highWater>>
Deq  == /\ q' = DeqNext(q) /\ last' = [op |-> "deq", res |-> Front(q)] /\ UNCHANGED <<max, frag, highWater>>
Peek == /\ last' = [op |-> "peek", res |-> Front(q)] /\ UNCHANGED <<q, max, frag, highWater>>
SetMax(n) == /\ max' = n /\ last' = [op |-> "setmax"] /\ highWater' = IF Len(q) > n THEN Len(q) ELSE n
             /\ UNCHANGED <<q, frag>>
Toggle == /\ frag' = ~frag /\ last' = [op |-> "toggle"] /\ UNCHANGED <<q, max, highWater>>

Next == \/ \E f \in Frames, how \in {"fresh", "mutate", "reuse", "str"} : Enq(f, how)
        \/ \E f \in Frames : EnqFrag(f)
        \/ Deq \/ Peek \/ Toggle
        \/ \E n \in MaxSizes : SetMax(n)
Spec == Init /\ [][Next]_vars

Bounded == Len(q) <= MaxLen

\* ---- C12 clauses on the reference model
C12_Bound == Len(q) <= highWater          \* never above max_queue_size (or what it already held when lowered)
C12_NoDup == NoDupIn(q)
C12_GrowOnlyBelowMax == [][Len(q') > Len(q) => Len(q') <= max']_vars
C12_FifoStep == [][\/ q' = q
                   \/ (Len(q) > 0 /\ q' = Tail(q))
                   \/ (\E f \in Frames : q' = Append(q, f))]_vars
C12_ToggleKeeps == [][frag' # frag => (q' = q /\ max' = max)]_vars

\* ---- constants of the exhaustive configurations (cfg files cannot contain records)
F(a, i, t, b) == [from |-> a, id |-> i, type |-> t, body |-> b]
FramesQuick == {F(1, 1, 0, <<1>>), F(1, 1, 0, <<2>>), F(1, 1, 65, <<3>>), F(2, 1, 0, <<4>>), F(2, 2, 0, <<>>)}
FramesThorough == FramesQuick \cup {F(2, 2, 65, <<5, 6>>), F(1, 2, 0, <<7>>), F(3, 1, 0, <<8>>)}
=============================================================================
