SPECIFICATION Spec
CONSTANTS
  Frames <- FramesQuick
  MaxSizes = {0, 1, 2, 6}
  MaxLen = 3
CONSTRAINT Bounded
INVARIANT C12_Bound
INVARIANT C12_NoDup
PROPERTY C12_GrowOnlyBelowMax
PROPERTY C12_FifoStep
PROPERTY C12_ToggleKeeps
CHECK_DEADLOCK FALSE
