----------------------------- MODULE TraceLoadAck -----------------------------
(* C20.LoadAck: rf24_lite.load_ack(buf, pipe) accepts exactly buffers of 1..32  *)
(* bytes for pipes 0..5 - then, if the TX FIFO has room, exactly one            *)
(* W_ACK_PAYLOAD entry for that pipe with those bytes is appended and True is   *)
(* returned; otherwise the TX FIFO is left untouched (and False returned or a   *)
(* ValueError raised).  One sweep point per initial state.                      *)
EXTENDS Integers, Sequences, TLC, Json, IOUtils
V == JsonDeserialize(IOEnv.TRACE_FILE)
VARIABLE tid
Acceptable(v) == v.n >= 1 /\ v.n <= 32 /\ v.pipe >= 0 /\ v.pipe <= 5
Clause(v) ==
  IF Acceptable(v) /\ v.fill < 3 THEN
     (IF v.exc # "none" \/ ~(v.rett = "bool" /\ v.ret) THEN <<"C20.LoadAck", "valid ACK payload refused">>
      ELSE IF v.post # Append(v.pre, [kind |-> "ack", pipe |-> v.pipe, data |-> v.buf]) THEN <<"C20.LoadAck", "TX FIFO does not hold exactly the new ACK payload">>
      ELSE <<"ok", "">>)
  ELSE IF v.post # v.pre THEN <<"C20.LoadAck", "TX FIFO changed although the call must be refused">>
  ELSE IF v.exc = "none" /\ v.ret THEN <<"C20.LoadAck", "True returned although nothing may be loaded">>
  ELSE <<"ok", "">>
TInit == tid \in 1..Len(V)
TNext == UNCHANGED tid
Report == Clause(V[tid])[1] # "ok" => PrintT("VERDICT " \o ToString(<<tid, 1, Clause(V[tid])[1], Clause(V[tid])[2]>>))
=============================================================================
