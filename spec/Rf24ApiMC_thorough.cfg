SPECIFICATION Spec
CONSTANT MaxDepth = 3
INVARIANT C03_WellFormed
PROPERTY C08_TxAckByContract
CHECK_DEADLOCK FALSE
