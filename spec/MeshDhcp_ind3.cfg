INIT IndInit
NEXT Next
CONSTANTS
  Ids = {1, 2, 3}
  Vias = {2340, 1}
  MaxDepth = 5
VIEW IndView
INVARIANT IndInv
PROPERTY C16_ValidChild
PROPERTY C16_OnlyRequesterChanges
PROPERTY C16_ReleaseFrees
PROPERTY C16_PersistIdentity
PROPERTY C16_LoadRestores
PROPERTY C16_RefuseWhenFull
CHECK_DEADLOCK FALSE
