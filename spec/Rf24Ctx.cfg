SPECIFICATION Spec
CONSTANTS
  Objs = {1, 2, 3}
  Vals = {1, 2, 3, 4}
  MaxBlocks = 4
PROPERTY C09_Restored
PROPERTY C09_Exit
PROPERTY C09_NoLeak
CHECK_DEADLOCK FALSE
