SPECIFICATION TSpec
INVARIANT C04_HopListens
INVARIANT C04_Route
INVARIANT C04_HopParentOrChild
INVARIANT C04_TreePath
CHECK_DEADLOCK FALSE
