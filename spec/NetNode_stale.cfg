SPECIFICATION Spec
CONSTANTS
  Tree = {0, 1, 9}
  Relays = {}
  NoMc = {}
  Types = {65}
  Lens = {1}
  FragLen = 1
  MaxWrites = 2
  MaxLoss = 1
  Concurrent = TRUE
  Redeliver = FALSE
  FreeTimeout = TRUE
INVARIANT AckAnswersTheAwaited
PROPERTY NoEarlyFail
CHECK_DEADLOCK FALSE
