------------------------------ MODULE Rf24ApiMC ------------------------------
(* Design-level check of the Rf24Api contract: whatever sequence of calls from *)
(* the alphabet the harness uses (loaded from the same JSON the driver of the  *)
(* real code reads), the register file the contract demands is well-formed     *)
(* (no reserved bit, no out-of-range field) and untouched by rejected calls.   *)
EXTENDS Rf24Api, Json, IOUtils
Alphabet == JsonDeserialize(IOEnv.ALPHA_FILE)
CONSTANT MaxDepth
VARIABLES s, u, n
vars == <<s, u, n>>
Init == s = Fresh /\ u = NoIntent /\ n = 0
Do(i) == LET c == Alphabet[i] IN
         /\ n < MaxDepth /\ n' = n + 1
         /\ IF Exc(s, c) = "none" /\ ~IsGetter(c) THEN s' = Post(s, u, c) ELSE s' = s
         /\ u' = Intent(s, u, c, IF Exc(s, c) = "none" THEN "none" ELSE "x")
Next == \E i \in 1..Len(Alphabet) : Do(i)
Spec == Init /\ [][Next]_vars
C03_WellFormed == WellFormed(s)
\* C08 on the contract itself: in RX mode (right after listen=True) pipe 0 is the user's or closed - by construction;
\* what TLC adds: after open_tx_pipe in TX mode with auto-ack, pipe 0 = TX address over the address width
C08_TxAckByContract == [][\A i \in 1..Len(Alphabet) :
     (Alphabet[i].op = "open_tx_pipe" /\ Exc(s, Alphabet[i]) = "none" /\ Bit(s.aa, 0) = 1 /\ InTx(s) /\ s' = Post(s, u, Alphabet[i]))
        => (Bit(s'.en, 0) = 1 /\ SubSeq(s'.p0, 1, Len(Alphabet[i].v)) = SubSeq(s'.txa, 1, Len(Alphabet[i].v)))]_vars
=============================================================================
