SPECIFICATION Spec
CONSTANT MaxDepth = 2
INVARIANT C03_WellFormed
PROPERTY C08_TxAckByContract
CHECK_DEADLOCK FALSE
