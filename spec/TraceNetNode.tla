--------------------------- MODULE TraceNetNode ---------------------------
(* Total trace monitor binding the L2 algorithm model NetNode.tla to the real  *)
(* RF24Network nodes: executions of several real nodes on the simulated air    *)
(* are recorded at the model's linearisation points                            *)
(*   write / mcast  the application's call                                     *)
(*   arrive         a packet of a transmission enters a radio's RX FIFO (air   *)
(*                  ground truth: sender, receiver, pipe, ACK requested)       *)
(*   txdone         the radio-level result of a transmission (ACK heard / not) *)
(*   rxpop          the driver takes a payload out of its RX FIFO              *)
(*   ret            write()/multicast() returns to the application             *)
(*   deq            the application reads a frame                              *)
(*   inject         a frame from outside the modelled tree enters a radio      *)
(*   end            quiescence at the end of the scenario                      *)
(* and every event must be the NetNode action the model allows in the state    *)
(* reached; the first event that is not names the clause it contradicts.       *)
(* Tree / Relays / NoMc are literal constants of a generated cfg (one TLC run  *)
(* per topology).  "drift.*" verdicts mean the recording and the model disagree *)
(* about the radio itself (machinery), never the code.                         *)
EXTENDS NetNode, Json, IOUtils
Traces == JsonDeserialize(IOEnv.TRACE_FILE)
N == INSTANCE Network          \* Listening(p, addr, lvl, allowMc, prefix, suffix): the C07 state, on the radio's true registers
VARIABLES tid, l, verdict
tvars == <<vars, tid, l, verdict>>
Tr == Traces[tid]

TInit == Init /\ tid \in 1..Len(Traces) /\ l = 1 /\ verdict = <<"ok", "">>

Fr(j) == [src |-> j.src, dst |-> j.dst, typ |-> j.typ, rsv |-> j.rsv, id |-> j.id, msg |-> j.msg]

OwedClause(n) ==
  CASE tx[n].role = "fwd"   -> <<"C05.RouterForwards", "a frame taken for forwarding was never transmitted">>
    [] tx[n].role = "ack"   -> <<"C13.AckOnce", "the NETWORK_ACK owed for a delivered frame was never transmitted">>
    [] tx[n].role = "relay" -> <<"C14.RelayOnce", "a multicast was not re-broadcast by a relaying node">>
    [] OTHER                -> <<"C05.Delivered", "a written message was never transmitted">>
FrameClause(n) ==
  CASE tx[n].role = "fwd"   -> <<"C05.RouterForwards", "the forwarded frame differs from the received one">>
    [] tx[n].role = "ack"   -> <<"C13.AckOnce", "not the NETWORK_ACK the delivered frame calls for">>
    [] tx[n].role = "relay" -> <<"C14.RelayOnce", "the re-broadcast frame differs from the received one">>
    [] OTHER                -> <<"C05.Delivered", "the transmitted frame is not the written one">>

ExpPipe(n) == IF IsMc(tx[n]) THEN 0 ELSE PipeToward(n, tx[n].hop)

ArriveV(e) ==
  LET n == e.n  m == e.m IN
  IF tx[n] = NoTx THEN <<"C13.AckOnce", "a node transmitted a frame the algorithm does not owe (type " \o ToString(e.f.typ) \o ")">>
  ELSE IF Fr(e.f) # tx[n].f THEN FrameClause(n)
  ELSE IF m \notin Targets(n) THEN
       IF IsMc(tx[n]) THEN <<"C14.ExactlyLevel", "heard by a node that is not on the addressed level">>
       ELSE <<"C04.HopParentOrChild", "the frame went to a node that is not the next hop">>
  ELSE IF e.pipe # ExpPipe(n) THEN <<"C04.HopListens", "received on pipe " \o ToString(e.pipe)>>
  ELSE IF IsMc(tx[n]) /\ e.want_ack THEN <<"C14.NoAckRequested", "a multicast asked for a radio acknowledgement">>
  ELSE IF ~IsMc(tx[n]) /\ ~e.want_ack THEN <<"C05.Delivered", "a unicast frame was sent without asking for a radio acknowledgement">>
  ELSE IF m \in tx[n].got /\ IsMc(tx[n]) THEN <<"C14.RelayOnce", "the same multicast transmission entered a radio twice">>
  ELSE IF Len(rx[m]) >= FIFO THEN <<"drift.Fifo", "arrival in a full FIFO">>
  ELSE <<"ok", "">>

TxDoneV(e) ==
  LET n == e.n IN
  IF tx[n] = NoTx THEN <<"drift.TxDone", "result of a transmission the model does not know">>
  ELSE IF IsMc(tx[n]) /\ ~e.ok THEN <<"C14.NoAckRequested", "a multicast waited for an acknowledgement">>
  ELSE IF ~IsMc(tx[n]) /\ e.ok /\ tx[n].got = {} THEN <<"drift.AckNoArrival", "acknowledged without arrival">>
  ELSE <<"ok", "">>

PopV(e) ==
  LET n == e.n IN
  IF tx[n] # NoTx THEN OwedClause(n)
  ELSE IF res[n] # "none" THEN <<"drift.PopAfterResult", "payload read after the call's result was known">>
  ELSE IF rx[n] # <<>> /\ Head(rx[n]) # Fr(e.f) /\ (\E i \in 1..Len(rx[n]) : rx[n][i] = Fr(e.f)) THEN
       \* payloads that entered the radio before this one were never read: the driver discarded them (a flush)
       IF Head(rx[n]).dst # n /\ Head(rx[n]).dst # MCAST
       THEN <<"C05.RouterForwards", "a frame that entered a router's radio was never taken for forwarding (it vanished from the RX FIFO)">>
       ELSE <<"C05.Delivered", "a frame that entered its destination's radio was never read (it vanished from the RX FIFO)">>
  ELSE IF rx[n] = <<>> \/ Head(rx[n]) # Fr(e.f) THEN <<"drift.RxOrder", "payload read is not the head of the modelled FIFO">>
  ELSE <<"ok", "">>

Listens(x) == N!Listening(x.proj, x.n, x.lvl, x.amc, Tr.prefix, Tr.suffix)
RetV(e) ==
  LET n == e.n IN
  IF call[n] = NoFrame THEN <<"drift.Ret", "return without a call">>
  ELSE IF ~Listens(e) THEN <<"C07.Listening", "the call returned on node " \o ToString(n) \o " without the radio listening">>
  ELSE IF tx[n] # NoTx THEN OwedClause(n)
  ELSE IF res[n] = "none" /\ wait[n] # NoFrame THEN
       IF e.res THEN <<"C13.TrueOnlyIfArrived", "write() returned True while no NETWORK_ACK had arrived">> ELSE <<"ok", "timeout">>
  ELSE IF res[n] = "none" THEN <<"C05.Delivered", "write() returned without transmitting">>
  ELSE IF e.res /\ res[n] = "F" THEN
       IF IsAckT(call[n].typ) /\ Routed(call[n]) /\ tx[n] = NoTx /\ NFrags(call[n]) = 1
       THEN <<"C13.TrueOnlyIfArrived", "True although the wait ended without a NETWORK_ACK">>
       ELSE <<"C05.ReturnTrue", "True although the first hop never acknowledged">>
  ELSE IF ~e.res /\ res[n] = "T" THEN
       IF popped[n] THEN <<"C13.TrueOnlyIfArrived", "False although a NETWORK_ACK addressed to the sender arrived in time">>
       ELSE <<"C05.ReturnTrue", "False although the transmission was acknowledged">>
  ELSE <<"ok", "">>

DeqV(e) ==
  LET n == e.n  f == Fr(e.f) IN
  IF q[n] # <<>> /\ Head(q[n]) = f THEN <<"ok", "">>
  ELSE IF f.dst # n /\ f.dst # MCAST THEN <<"C05.NoBystander", "a frame for another node reached the application">>
  ELSE IF f.typ = NETWORK_ACK THEN <<"C13.AckOnce", "a NETWORK_ACK reached the application">>
  ELSE IF \E i \in 1..Len(q[n]) : q[n][i] = f THEN <<"C12.Fifo", "frames read out of order">>
  ELSE IF \E i \in 1..Len(deliv) : deliv[i] = <<n, f>> THEN <<"C05.Delivered", "a frame was delivered to the application twice">>
  ELSE <<"C05.Delivered", "the application read a frame the algorithm does not deliver here (altered, or never received)">>

EndV(e) ==
  IF \E i \in 1..Len(e.nodes) : ~Listens(e.nodes[i])
  THEN <<"C07.Listening", "at quiescence node " \o ToString(e.nodes[CHOOSE i \in 1..Len(e.nodes) : ~Listens(e.nodes[i])].n) \o " is not listening">>
  ELSE IF \E n \in Tree : tx[n] # NoTx THEN OwedClause(CHOOSE n \in Tree : tx[n] # NoTx)
  ELSE IF \E n \in Tree : q[n] # <<>> THEN
       LET n == CHOOSE n \in Tree : q[n] # <<>> IN
       IF Head(q[n]).dst = MCAST THEN <<"C14.ExactlyLevel", "a multicast heard by the radio never reached the application">>
       ELSE <<"C05.Delivered", "a frame that arrived at its destination never reached the application">>
  ELSE IF \E n \in Tree : rx[n] # <<>> THEN
       LET n == CHOOSE n \in Tree : rx[n] # <<>> IN
       IF Head(rx[n]).dst # n /\ Head(rx[n]).dst # MCAST
       THEN <<"C05.RouterForwards", "a frame that entered a router's radio was never taken for forwarding (it vanished from the RX FIFO)">>
       ELSE <<"C05.Delivered", "a frame that entered its destination's radio was never read (it vanished from the RX FIFO)">>
  ELSE IF \E n \in Tree : call[n] # NoFrame \/ wait[n] # NoFrame THEN <<"drift.End", "a call never returned">>
  ELSE <<"ok", "">>

TimeoutReturn(n) ==      \* Timeout(n) . Return(n): the wait gave up and write() reported False
  /\ rets' = rets \cup {[f |-> call[n], res |-> "F", popped |-> popped[n]]}
  /\ call' = [call EXCEPT ![n] = NoFrame] /\ wait' = [wait EXCEPT ![n] = NoFrame]
  /\ UNCHANGED <<rx, q, tx, res, cache, nw, loss, acks, deliv, popped, mlvl, heard>>

Step ==
  /\ verdict[1] = "ok" /\ l <= Len(Tr.ev) /\ l' = l + 1 /\ tid' = tid
  /\ LET e == Tr.ev[l] IN
     \/ /\ e.k = "write"
        /\ IF Idle(e.n) /\ res[e.n] = "none" /\ e.f.dst \in Tree
           THEN Write(e.n, Fr(e.f)) /\ verdict' = verdict
           ELSE UNCHANGED vars /\ verdict' = <<"drift.Call", "a call started on a busy node">>
     \/ /\ e.k = "mcast"
        /\ IF Idle(e.n) /\ res[e.n] = "none"
           THEN Mcast(e.n, Fr(e.f), e.lvl) /\ verdict' = verdict
           ELSE UNCHANGED vars /\ verdict' = <<"drift.Call", "a call started on a busy node">>
     \/ /\ e.k = "arrive"
        /\ IF ArriveV(e)[1] = "ok"
           THEN (IF e.m \in tx[e.n].got THEN ReArrive(e.n, e.m) ELSE Arrive(e.n, e.m)) /\ verdict' = verdict
           ELSE UNCHANGED vars /\ verdict' = ArriveV(e)
     \/ /\ e.k = "txdone"
        /\ IF TxDoneV(e)[1] = "ok" THEN TxDone(e.n, e.ok) /\ verdict' = verdict
           ELSE UNCHANGED vars /\ verdict' = TxDoneV(e)
     \/ /\ e.k = "rxpop"
        /\ IF PopV(e)[1] = "ok" THEN Recv(e.n) /\ verdict' = verdict
           ELSE UNCHANGED vars /\ verdict' = PopV(e)
     \/ /\ e.k = "ret"
        /\ IF RetV(e) = <<"ok", "timeout">> THEN TimeoutReturn(e.n) /\ verdict' = verdict
           ELSE IF RetV(e)[1] = "ok" THEN Return(e.n) /\ verdict' = verdict
           ELSE UNCHANGED vars /\ verdict' = RetV(e)
     \/ /\ e.k = "deq"
        /\ IF DeqV(e)[1] = "ok" THEN Deq(e.n) /\ verdict' = verdict
           ELSE UNCHANGED vars /\ verdict' = DeqV(e)
     \/ /\ e.k = "crash" /\ UNCHANGED vars
        /\ verdict' = IF e.what = "livelock" THEN <<"C05.RouterForwards", "the network never becomes quiet: a frame is passed along for ever">>
                      ELSE IF e.what = "hang" THEN <<"C13.Bounded", "a call on node " \o ToString(e.n) \o " never returned">>
                      ELSE <<"C15.NoRaise", "node " \o ToString(e.n) \o " raised " \o e.what>>
     \/ /\ e.k = "inject"          \* environment: a frame sent by a neighbour outside the modelled tree enters a radio
        /\ IF Len(rx[e.m]) < FIFO
           THEN /\ rx' = [rx EXCEPT ![e.m] = Append(@, Fr(e.f))] /\ heard' = heard \cup {<<e.m, Fr(e.f)>>}
                /\ UNCHANGED <<q, tx, wait, res, call, cache, nw, loss, acks, deliv, rets, popped, mlvl>>
                /\ verdict' = verdict
           ELSE UNCHANGED vars /\ verdict' = <<"drift.Fifo", "injection into a full FIFO">>
     \/ /\ e.k = "end" /\ UNCHANGED vars /\ verdict' = EndV(e)

TSpec == TInit /\ [][Step]_tvars
\* the model's own invariants are evaluated in every state the real execution drives it through
\* (at-most-once and one NETWORK_ACK per message are only promised while no attempt re-entered a receiver, see ReArrive)
NoRe == \A i \in 1..Len(Tr.ev) : (i < l /\ Tr.ev[i].k = "arrive") => ~Tr.ev[i].again
\* (frames injected from outside the tree were not Written in the model: only their copies are counted)
AtMostOnceT == \A i \in 1..Len(deliv) : LET n == deliv[i][1]  f == deliv[i][2] IN
                  Copies(n, f) = 1 /\ (f.dst # MCAST => n = f.dst)
AckOnceT    == \A i \in 1..Len(acks) : AcksFor(acks[i][2]) <= 1
Inv == C13_WaitOnlyIfNeeded /\ C13_AckOnlyIfOwed /\ C14_ExactlyLevel /\ (NoRe => AckOnceT /\ AtMostOnceT)
Report == (verdict[1] # "ok" \/ l > Len(Tr.ev)) =>
            PrintT("VERDICT " \o ToString(<<tid, l - 1, IF verdict[1] = "ok" /\ ~Inv THEN "NetNode.Invariant" ELSE verdict[1], verdict[2]>>))
=============================================================================
