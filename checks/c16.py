"""C16 - the mesh master leases each logical address to at most one node id.
MeshDhcp.tla: allocation algorithm model-checked against the lease clauses; every edge of its state graph is replayed
on a real RF24Mesh master (requests / releases injected over the simulated air, save/load through real files) and the
observations (dhcp_dict, MESH_ADDR_RESPONSE frames on air) are judged by the TLC monitor TraceMeshDhcp.tla; random long
histories with ids 1..255 and persistence of random tables follow the same route."""
import os
import random
import struct
from concurrent.futures import ProcessPoolExecutor

from harness import tlc, sim
from harness.tourlib import Graph
from harness.ev import jsonable

DEFAULT = 0o4444
PREFIX, SUFFIX = 0xCC, [0xC3, 0x3C, 0x33, 0xCE, 0x3E, 0xE3]


class Master:
    def __init__(self, wd, tag):
        self.s = sim.Sched()
        self.air = sim.Air(self.s)
        sim.install(self.s)
        self.air.acceptor = lambda c, p: b""
        self.air.collisions = False
        from circuitpython_nrf24l01.rf24_mesh import RF24Mesh
        self.RF24Mesh = RF24Mesh
        self.chip = sim.Chip(self.air, "m")
        self.m = RF24Mesh(sim.FakeSpiDev(self.chip), 0, sim.Pin(self.chip), 0)
        self.wd, self.tag = wd, tag
        self.m.route_timeout = 2   # public knob: nobody answers NETWORK_ACKs here, keep the (irrelevant) wait short
        self.fid = 100

    def table(self):
        return sorted([int(k), int(v)] for k, v in self.m.dhcp_dict.items())

    def _inject(self, frm, typ, reserved, msg=b"", pipe=None, noise=None, to=0):
        self.fid = (self.fid + 1) & 0xFFFF
        buf = struct.pack("<HHHBB", frm, to, self.fid, typ, reserved) + msg
        if pipe is None:
            pipe = 0 if frm == DEFAULT else (frm & 7)   # children talk to the master's pipe <first digit>
        r = self.chip.inject(pipe, buf)
        if r[1] != "new":
            raise RuntimeError("injection failed %s" % (r,))
        if noise is not None:
            # an unrelated user frame (from node 0o3, another ID in its reserved byte) is already waiting behind the request:
            # the master meets it while it waits for the NETWORK_ACK of a routed answer
            self.fid = (self.fid + 1) & 0xFFFF
            r = self.chip.inject(3, struct.pack("<HHHBB", 0o3, 0, self.fid, 0, noise) + b"zz")
            if r[1] != "new":
                raise RuntimeError("injection failed %s" % (r,))
            # ... and two more arrive later, while the master waits for the NETWORK_ACK of its RE-SENT answer
            for k, dt in enumerate((2_600_000, 3_400_000, 4_200_000, 4_800_000, 5_400_000)):
                self.fid = (self.fid + 1) & 0xFFFF
                late = struct.pack("<HHHBB", 0o3, 0, self.fid, 0, (noise + 1 + k) & 0xFF) + b"yy"
                self.s.at(self.s.now + dt, lambda t, late=late: self.chip.inject(3, late))
        self.air.log.clear()
        self.s.deadline = self.s.now + 400_000_000          # virtual-time watchdog: a master that never returns is an observation
        try:
            self.m.update()
            if noise is not None:
                self.m.update()
                while self.m.available():
                    self.m.read()
        except sim.WatchdogExpired:
            self.hung = True
        except Exception:  # noqa  (a verdict about the code, not a harness failure)
            self.hung = self.raised = True
        self.s.deadline = None
        if noise is not None and not getattr(self, "hung", False):
            # the frames scheduled to arrive "later" have all arrived before the next step starts, and the application has
            # polled and read them (a master that returned early must not leave them to block the next injection)
            self.s.advance(6_000_000)
            self.s.deadline = self.s.now + 400_000_000
            try:
                for _ in range(3):
                    self.m.update()
                    while self.m.available():
                        self.m.read()
            except sim.WatchdogExpired:
                self.hung = True
            except Exception:  # noqa
                self.hung = self.raised = True
            self.s.deadline = None
        out = []
        for p in self.air.log:
            d = p["data"]
            if len(d) >= 8:
                f, t, i, ty, rs = struct.unpack("<HHHBB", bytes(d[:8]))
                out.append({"from": f, "to": t, "type": ty, "reserved": rs, "payload": list(d[8:]), "phys": p["addr"],
                            "noack": 1 - p["want_ack"]})
        return out

    def request(self, nid, via, noise=None):
        b = self.table()
        if getattr(self, "hung", False):        # (already reported once; the rest of this history is not executed)
            return dict(op="hang", id=nid, via=via, before=b, after=b, replies=[], noise=-1)
        rep = self._inject(via, 195, nid, noise=noise)
        if getattr(self, "hung", False):
            return dict(op="raise" if getattr(self, "raised", False) else "hang", id=nid, via=via, before=b, after=b, replies=[], noise=-1)
        return dict(op="req", id=nid, via=via, before=b, after=self.table(), replies=rep, noise=-1 if noise is None else noise)

    def routed(self, nid, frm, to):
        """a request made to ANOTHER contact (to_node = a level-1 node) that is only passed along through the master"""
        b = self.table()
        if getattr(self, "hung", False):
            return dict(op="routed", id=nid, before=b, after=b, replies=[])
        rep = self._inject(frm, 195, nid, to=to)
        return dict(op="routed", id=nid, before=b, after=self.table(), replies=rep)

    def release(self, addr):
        b = self.table()
        if not getattr(self, "hung", False):
            self._inject(addr, 197, 0)
        return dict(op="rel", addr=addr, before=b, after=self.table())

    def save(self, fmt):
        self.saved = (fmt, os.path.join(self.wd, "dhcp_%s_keep.%s" % (self.tag, fmt)), self.table())
        self.m.save_dhcp(self.saved[1], as_bin=(fmt == "bin"))
        return dict(op="save", fmt=fmt, before=self.saved[2], after=self.table())

    def load(self):
        fmt, path, tab = self.saved
        b = self.table()
        self.m.load_dhcp(path, as_bin=(fmt == "bin"))
        return dict(op="load", fmt=fmt, before=b, after=self.table(), file=tab)

    def saveload(self, fmt):
        b = self.table()
        path = os.path.join(self.wd, "dhcp_%s.%s" % (self.tag, fmt))
        self.m.save_dhcp(path, as_bin=(fmt == "bin"))
        c2 = sim.Chip(self.air, "m2")
        m2 = self.RF24Mesh(sim.FakeSpiDev(c2), 0, sim.Pin(c2), 0)
        self.air.chips.remove(c2)
        m2.load_dhcp(path, as_bin=(fmt == "bin"))
        loaded = sorted([int(k), int(v)] for k, v in m2.dhcp_dict.items())
        os.remove(path)
        return dict(op="saveload", fmt=fmt, before=b, after=self.table(), loaded=loaded)


def replay_paths(args):
    paths, wd, tag = args
    out = []
    for pi, labels in enumerate(paths):
        m = Master(wd, "%s_%d" % (tag, os.getpid()))
        ev = []
        for (name, a) in labels:
            if name == "Request":
                ev.append(m.request(a[0], a[1], noise=((a[0] + 100) if (a[1] != DEFAULT and a[1] >= 0o10 and (pi + len(ev)) % 2) else None)))
            elif name == "Release":
                addr = dict(map(tuple, m.table())).get(a[0])
                if addr is None:   # implementation has no lease where the model has one: observable at the request already
                    ev.append(dict(op="rel", addr=-5, before=m.table(), after=m.table()))
                else:
                    ev.append(m.release(addr))
            elif name == "Save":
                ev.append(m.save(a[0]))
            elif name == "Load":
                ev.append(m.load())
            else:
                ev.append(m.saveload(a[0]))
        out.append(dict(prefix=PREFIX, suffix=SUFFIX, ev=ev))
    return out


def random_history(args):
    seed, depth, wd = args
    rng = random.Random(seed)
    m = Master(wd, "r%d" % seed)
    ev = []
    ids = rng.sample(range(1, 256), rng.choice([6, 12, 30]))
    for _ in range(depth):
        tab = dict(map(tuple, m.table()))
        x = rng.random()
        if x < 0.7:
            nid = rng.choice(ids)
            conn = [a for a in tab.values() if a < 0o1000]   # connected nodes of level <= 3 may relay
            pool = [DEFAULT] * 3 + conn + [rng.choice([0o1, 0o2, 0o5, 0o14, 0o44, 0o444, 0o144, 0o344])]
            via = rng.choice(pool)
            ev.append(m.request(nid, via, noise=(rng.choice([i for i in ids if i != nid]) if (via != DEFAULT and via >= 0o10 and rng.random() < 0.4) else None)))
        elif x < 0.75:
            ev.append(m.routed(rng.choice(ids), rng.choice([0o2, 0o3, 0o12]), rng.choice([0o1, 0o4, 0o15])))
        elif x < 0.9 and tab:
            ev.append(m.release(rng.choice(list(tab.values()))))
        elif x < 0.94:
            ev.append(m.saveload(rng.choice(["json", "bin"])))
        elif x < 0.97 or not hasattr(m, "saved"):
            ev.append(m.save(rng.choice(["json", "bin"])))
        else:
            ev.append(m.load())
    return dict(prefix=PREFIX, suffix=SUFFIX, ev=ev)


def persistence(args):
    seed, sizes, wd = args
    rng = random.Random(seed)
    m = Master(wd, "p%d" % seed)
    pool = [a for a in range(1, 0o5556) if all(1 <= (a >> (3 * k)) & 7 <= 5 for k in range(len(oct(a)) - 2)) and a != DEFAULT]
    ev = []
    for n in sizes:
        ids = rng.sample(range(1, 256), n)
        m.m.dhcp_dict = {i: a for i, a in zip(ids, rng.sample(pool, n))}
        for fmt in ("json", "bin"):
            ev.append(m.saveload(fmt))
    return dict(prefix=PREFIX, suffix=SUFFIX, ev=ev)


def run(chk):
    quick = chk.tier == "quick"
    chk.rule = ("(A) every edge of the MeshDhcp.tla graph (ids x relays x request/release/save-load, exhaustive to the cfg "
                "depth) replayed on a real master; (B) random histories ids 1..255 incl. full parents; persistence for "
                "random tables of 0..255 entries; all observations judged by TraceMeshDhcp.tla. distinct = spec edges + "
                "random events")
    g = Graph.load("MeshDhcp", "MeshDhcp" if quick else "MeshDhcp_thorough", timeout=2400)
    chk.add_tlc(g.result, "allocation algorithm vs lease clauses + graph export")
    # unbounded history length: Injective (table and saved file) is inductive - one step of Next from EVERY injective table
    ri = tlc.mc("MeshDhcp", "MeshDhcp_ind" if quick else "MeshDhcp_ind3", timeout=3000)
    chk.add_tlc(ri, "inductive step from every injective table x saved file (%d ids): invariant + all lease clauses on every transition, "
                    "hence at every depth" % (2 if quick else 3))
    chk.phase('mc+graph')
    paths = g.tour()
    chk.phase('tour')
    lab = [[g.label(l) for (_, l, _) in p] for p in paths]
    for p in paths:
        for e in p:
            chk.case(e)
    wd = tlc.workdir("c16")
    traces = []
    with ProcessPoolExecutor(16) as ex:
        chunks = [lab[i::32] for i in range(32)]
        for res in ex.map(replay_paths, [(c, wd, "t%d" % i) for i, c in enumerate(chunks)]):
            traces += res
        chk.phase('replay')
        n_rand = 40 if quick else 600
        rnd = list(ex.map(random_history, [(chk.seed * 1000 + i, 80, wd) for i in range(n_rand)]))
        for t in rnd:
            chk.case(n=len(t["ev"]))
            chk.distinct.update(("r", id(t), i) for i in range(len(t["ev"])))
        traces += rnd
        sizes = list(range(0, 9)) + [16, 64, 128, 200, 255] if quick else list(range(0, 256))
        per = list(ex.map(persistence, [(chk.seed + 77 + i, sizes[i::8], wd) for i in range(8)]))
        traces += per
        for t in per:
            chk.case(n=len(t["ev"]))
    chk.phase('random+persist')
    chk.traces += len(traces)
    chk.sample(dict(kind="recorded event", ev=traces[len(traces) // 3]["ev"][:2]))
    verdicts, st = tlc.validate("TraceMeshDhcp", "TraceMeshDhcp", jsonable(traces), shard=800, timeout=2400)
    chk.add_stats(st, "trace validation")
    chk.phase('validate')
    drift = 0
    seen = {}
    for t, v in zip(traces, verdicts):
        drift += int(v["extra"][0]) if v.get("extra") else 0
        if v["clause"] != "ok":
            e = t["ev"][v["at"] - 1]
            key = "%s:%s:%s" % (v["clause"], e["op"], v["detail"])
            seen.setdefault(key, (v, dict(kind="trace", ev=t["ev"][: v["at"]])))
    for key, (v, sc) in seen.items():
        chk.violation(v["clause"], key, sc, v["detail"])
    if drift:
        chk.note("model drift: %d requests were answered with a different (but clause-checked) address than MeshDhcp!Alloc" % drift)
    chk.extra["model_drift_events"] = drift
    chk.exhaustive = True
    chk.assumptions += ["requests reach the master as the relaying node would forward them (from = relay address, reserved = id)",
                        "releases come from nodes that hold the released address"]
