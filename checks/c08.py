"""C08 - RX/TX switching preserves the user's pipe-0 address and ACK reception.
Contract: Rf24Api.tla (listen=, open_tx_pipe, open_rx_pipe, close_rx_pipe with the user's pipe-0 intent), model-checked
in Rf24ApiMC; binding: every call sequence over the pipe/listen alphabet to depth 4 (thorough 5) and random depth-30
histories on the real RF24, judged step by step by TraceRf24Api.tla, with behavioural probes at the end of each history
(packet to the user's pipe-0 address after entering RX; send() to a listening peer after open_tx_pipe in TX mode)."""
import itertools
import json
import os
import random
from concurrent.futures import ProcessPoolExecutor

from harness import tlc, sim, rfapi
from harness.ev import jsonable
from checks.c03 import arg_repr

A5, B5, S3, C5 = rfapi.A5, rfapi.B5, rfapi.S3, rfapi.C5
ALPHA = [("open_rx_pipe", (0, A5)), ("open_rx_pipe", (0, B5)), ("open_rx_pipe", (0, S3)), ("open_rx_pipe", (1, A5)),
         ("close_rx_pipe", 0), ("close_rx_pipe", 1), ("open_tx_pipe", A5), ("open_tx_pipe", B5), ("open_tx_pipe", C5), ("open_tx_pipe", S3),
         ("auto_ack=", 0x3F), ("auto_ack=", 0x3E), ("set_auto_ack", (False, 0)), ("set_auto_ack", (True, 0)),
         ("listen=", True), ("listen=", False),
         ("address_length=", 3), ("address_length=", 5)]
LITE_ALPHA = [x for x in ALPHA if x[0] not in ("auto_ack=", "set_auto_ack")]


def end_probes(nrf, chip, air, seq, lite):
    """behavioural probes at the end of a history; harness-side intent tracking only decides WHERE to send"""
    ev = []
    st = rfapi.state(chip)
    aw = st["aw"] + 2
    in_rx = (st["c"] & 3) == 3 and st["ce"]
    in_tx = (st["c"] & 3) == 2
    if in_rx and seq and seq[-1] == ("listen=", True):
        air.s.advance(200_000)
        # intent image as the user's open_rx_pipe(0, a) calls produced it is not recomputed here: the probe goes to
        # whatever address the last successful open_rx_pipe(0, .) call left in RX_ADDR_P0 at that time (recorded then)
        target = getattr(nrf, "_probe_target", None)
        delivered = False
        if target is not None:
            rx = air.phantom_tx(bytes(target[:aw]), st["ch"], aw, chip.rate(), chip.crc_len(), b"\x01" * max(1, st["pw"][0]))
            delivered = any(n == chip.name and p == 0 and how == "new" for (n, p, how) in rx)
        else:  # user never opened / closed pipe 0: nothing addressed to the current register value may arrive on pipe 0
            rx = air.phantom_tx(bytes(st["p0"][:aw]), st["ch"], aw, chip.rate(), chip.crc_len(), b"\x01" * max(1, st["pw"][0]))
            delivered = any(n == chip.name and p == 0 for (n, p, how) in rx)
        rx2 = air.phantom_tx(bytes(st["txa"][:aw]), st["ch"], aw, chip.rate(), chip.crc_len(), b"\x02" * max(1, st["pw"][0]), pid=2)
        txd = any(n == chip.name and p == 0 for (n, p, how) in rx2)
        ev.append(dict(k="probe_rx", delivered=delivered, tx_delivered=txd, aw=aw, txa=st["txa"],
                       target=list(target[:aw]) if target is not None else []))
    # (rf24_lite opens pipe 0 for the ACK when it leaves RX mode, not in open_tx_pipe(): its documented order is
    # open_tx_pipe(); listen = False; send() - the probe follows that order)
    if in_tx and (st["aa"] & 1) and seq and (seq[-1][0] == "open_tx_pipe" if not lite else
                                             (len(seq) >= 2 and seq[-1] == ("listen=", False) and seq[-2][0] == "open_tx_pipe")):
        peer = sim.Chip(air, "peer")
        peer.r[0] = 0x0B | (st["c"] & 0x0C)
        peer.r[1], peer.r[2], peer.r[3], peer.r[5], peer.r[6] = 0x3F, 0x02, st["aw"], st["ch"], st["rf"]
        peer.r[0x1C], peer.r[0x1D] = 0x3F, 0x04
        peer.addr[0x0B][:] = bytes(st["txa"])
        peer.ce = True
        peer.rx_since = 0
        try:
            res = bool(nrf.send(b"probe"))
        except Exception:  # noqa
            res = False
        air.chips.remove(peer)
        ev.append(dict(k="probe_tx", result=res))
    return ev


def run_seqs(args):
    seqs, lite = args
    out = []
    for seq in seqs:
        s = sim.Sched()
        air = sim.Air(s)
        sim.install(s)
        if lite:
            from circuitpython_nrf24l01.rf24_lite import RF24 as cls
            nrf, chip = sim.new_radio(air, "r", cls=cls, spidev=False)
        else:
            nrf, chip = sim.new_radio(air, "r")
            nrf.__enter__()     # powered up, TX role, as every example does before configuring pipes
        ev = []
        for (op, a) in seq:
            e = rfapi.do_call(nrf, chip, op, a)
            ev.append(e)
            if e["exc"] == "none":
                if op == "open_rx_pipe" and a[0] == 0:
                    nrf._probe_target = list(chip.addr[0x0A])
                elif op == "close_rx_pipe" and a == 0:
                    nrf._probe_target = None
        s.deadline = s.now + 2_000_000_000
        try:
            ev += end_probes(nrf, chip, air, list(seq), lite)
        except sim.WatchdogExpired:
            ev.append(dict(k="probe_tx", result=False))
        s.deadline = None
        if not lite and not any(e["k"] == "probe_tx" for e in ev):
            ev.append(rfapi.reenter(nrf, chip))     # cached view = radio (C03.ShadowCoherent) after every history
        out.append(dict(lite=lite, ev=ev))
    return out


def explore(chk, alpha, lite, depth_quick=4, depth_thorough=5, tag=""):
    quick = chk.tier == "quick"
    rng = random.Random(chk.seed + 8)
    depth = depth_quick if quick else depth_thorough
    allfound = {}
    allseqs, alltr = [], []
    with ProcessPoolExecutor(16) as ex:
        def execute(seqs):
            chunks = [seqs[i::64] for i in range(64)]
            res = list(ex.map(run_seqs, [(c, lite) for c in chunks]))
            out = [None] * len(seqs)
            for i, r_ in enumerate(res):
                out[i::64] = r_
            return out
        for d in range(1, depth + 1):
            # (depth 5 - thorough tier only - runs over the 15 core letters: 18^5 histories do not fit in memory; the three
            # later additions are covered exhaustively to depth 4 and by the random depth-30 histories)
            a_d = alpha if d < 5 else [x for x in alpha if x not in (("open_tx_pipe", S3), ("set_auto_ack", (False, 0)),
                                                                      ("set_auto_ack", (True, 0)))]
            seqs = list(itertools.product(a_d, repeat=d))
            tr = execute(seqs)
            chk.phase("%sexec %d" % (tag, d))
            if d == depth or d < 3:
                pass
            allseqs += seqs
            alltr += tr
            chk.traces += len(seqs)
            for s_ in seqs:
                chk.case((tag, "x") + tuple((op, arg_repr(a)) for op, a in s_))
            if d == 3:
                chk.sample(dict(kind="history", seq=[[op, arg_repr(a)] for op, a in seqs[len(seqs) // 2]],
                                last_event=tr[len(seqs) // 2]["ev"][-1]))
            chk.phase("%sdepth %d" % (tag, d))
        n = 300 if quick else 6000
        rnd = [tuple(rng.choice(alpha) for _ in range(30)) for _ in range(n)]
        allseqs += rnd
        alltr += execute(rnd)
        chk.phase("%srandom exec" % tag)
        for calls, ev, v in rfapi.judge_forest(chk, allseqs, alltr, "%sall sequences to depth %d + random depth-30 histories "
                                               "(history forest)" % (tag, depth), lite):
            allfound.setdefault(v["clause"], []).append((calls, ev, v))
        chk.phase("%sjudge" % tag)
        chk.traces += n
        for s_ in rnd:
            chk.case((tag, "r") + tuple((op, arg_repr(a)) for op, a in s_))
    # one violation per (clause, minimal witness shape): shortest failing prefixes
    for cl, items in allfound.items():
        shapes = {}
        for calls, ev, v in items:
            key = "%s:%s" % (cl, v["detail"])
            if key not in shapes or len(calls) < len(shapes[key][0]):
                shapes[key] = (calls, ev, v)
        for key, (calls, ev, v) in shapes.items():
            chk.violation(cl, tag + key, dict(kind="calls", lite=lite, seq=[list(c) for c in calls], failing_event=ev),
                          v["detail"])


def run(chk):
    chk.rule = ("every sequence over the 15-letter pipe/listen alphabet (open_rx_pipe 0/1 with equal, different, short and "
                "byte-sharing addresses, close_rx_pipe, open_tx_pipe, auto_ack, listen, address_length) up to depth 4 "
                "(thorough 5) plus random depth-30 histories, on a real RF24 on the radio double; each step judged by "
                "TraceRf24Api.tla, end-of-history probes through the simulated air; distinct = sequences")
    wd = tlc.workdir("c08")
    alpha = os.path.join(wd, "alphabet.json")
    with open(alpha, "w") as f:
        json.dump(jsonable([rfapi.encode(op, a) for op, a in ALPHA]), f)
    r = tlc.mc("Rf24ApiMC", "Rf24ApiMC_c08", env={"ALPHA_FILE": alpha}, timeout=2400)
    chk.add_tlc(r, "contract over the C08 alphabet to depth 6: well-formed, TxAck by contract")
    chk.phase("mc")
    explore(chk, ALPHA, lite=False)
    chk.exhaustive = True
    chk.assumptions += ["an ACK is received only if pipe 0 is enabled and RX_ADDR_P0 = TX_ADDR over the address width "
                        "(the reading the library's own docs rely on)",
                        "TX mode = PWR_UP and not PRIM_RX (after listen = False or context entry)"]
