"""C18 - every advertisement is a well-formed BLE packet for the channel it is sent on.
BleLink.tla: bit-serial Core-spec whitening / CRC-24 / PDU reference (self-checked by TLC); BleAdv.tla: channel
history model whose every edge is replayed on the real FakeBLE; TraceBle.tla decodes the bytes advertise() loads into
the simulated radio with the channel index of the RF_CH register actually programmed."""
import itertools
import random
import struct
from concurrent.futures import ProcessPoolExecutor

from harness import tlc, sim
from harness.tourlib import Graph
from harness.ev import jsonable

PA = [0, -6, -12, -18]


class Ble:
    def __init__(self, seed=0, share=False):
        self.s = sim.Sched()
        self.air = sim.Air(self.s)
        sim.install(self.s)
        from circuitpython_nrf24l01 import fake_ble
        from circuitpython_nrf24l01.rf24 import RF24
        self.m = fake_ble
        self.chip = sim.Chip(self.air, "b")
        spi = sim.FakeSpiDev(self.chip)
        self.other = RF24(spi, 0, sim.Pin(self.chip)) if share else None
        self.ble = fake_ble.FakeBLE(spi, 0, sim.Pin(self.chip))

    def advertise(self, chunks=None, single=None, want=None, same_container=False):
        """chunks: list of AD-structure byte strings (list form); single: (buf, data_type) form.
        want: what the caller's chunks contained when they were built (a repeated call with the SAME objects)"""
        ble, chip = self.ble, self.chip
        if single is not None:
            buf, typ = single
            want = [list(self.m.chunk(buf, typ))] if buf else []
            arg = (buf, typ)
        else:
            want = [list(c) for c in chunks] if want is None else want
            arg = (chunks if same_container else list(chunks),)
        flat = b"".join(bytes(c) for c in want)
        try:
            la = ble.len_available(flat)
        except Exception:  # noqa
            la = -999
        chip.spi_log = []
        self.s.deadline = self.s.now + 500_000_000
        exc = "none"
        try:
            ble.advertise(*arg)
        except sim.WatchdogExpired:
            exc = "Hang"
        except Exception as e:  # noqa
            exc = type(e).__name__
        self.s.deadline = None
        loads = [mosi[1:] for (_, mosi, _) in chip.spi_log if mosi[0] in (0xA0, 0xB0)]
        chip.spi_log = None
        name = ble.name
        return dict(k="adv", exc=exc, payload=list(loads[-1]) if loads else [], nloads=len(loads), rfch=chip.r[5],
                    mac=list(ble.mac), has_name=name is not None, name=list(name) if name is not None else [],
                    show_pa=bool(ble.show_pa_level), pa=ble.pa_level if not exc == "Hang" else 0, chunks=want, len_avail=la)


def quiet_details(ble):
    import contextlib
    import io
    with contextlib.redirect_stdout(io.StringIO()):
        ble.print_details(True)


def input_vectors(args):
    seed, specs = args
    rng = random.Random(seed)
    out = []
    for (nlen, ntype, show, pa, sizes, hops, form) in specs:
        b = Ble()
        ble = b.ble
        with ble:
            ble.mac = bytes(rng.randrange(256) for _ in range(6)) if rng.random() < 0.8 else rng.randrange(1 << 47)
            for _ in range(hops):
                ble.hop_channel()
            ble.pa_level = pa
            try:
                if ntype == "none":
                    ble.name = None
                else:
                    raw = bytes(rng.choice(b"abcdefghijklmnopqrstuvwxyzNRF_-") for _ in range(nlen))
                    ble.name = raw.decode() if ntype == "str" else (bytearray(raw) if rng.random() < 0.3 else raw)
            except ValueError:
                pass
            try:
                # "truthy" forms an application computes (`options & 4`) must mean the same as True
                ble.show_pa_level = show and rng.choice([True, True, 1, 2, 4, 0x80])
            except ValueError:
                pass
            if rng.random() < 0.25:
                quiet_details(ble)      # the debugging aid reads everything back; it must change nothing
            if form == "single":
                n = sizes[0] if sizes else 0
                ev = b.advertise(single=(bytes(rng.randrange(256) for _ in range(n)), rng.choice([0xFF, 0x16, 0x09])))
            else:
                chunks = []
                for n in sizes:
                    body = bytes(rng.randrange(256) for _ in range(max(0, n - 2)))
                    chunks.append(b.m.chunk(body, rng.choice([0x16, 0xFF])))
                cont = chunks if rng.random() < 0.5 else tuple(chunks)
                orig = [list(c) for c in chunks]
                ev = b.advertise(chunks=cont, same_container=True)
                if len(chunks) >= 2 and ev["exc"] == "none":
                    # the documented loop `advertise(buffers); hop_channel()` re-uses the same container and chunk objects
                    ev["spec"] = [nlen, ntype, show, pa, list(sizes), hops, form]
                    out.append(ev)
                    ble.hop_channel()
                    ev = b.advertise(chunks=cont, want=orig, same_container=True)
            ev["spec"] = [nlen, ntype, show, pa, list(sizes), hops, form]
            out.append(ev)
    return out


def service_vectors(seed):
    """advertisements built from the library's own ServiceData helpers"""
    rng = random.Random(seed)
    out = []
    for i in range(60):
        b = Ble()
        ble = b.ble
        with ble:
            for _ in range(i % 3):
                ble.hop_channel()
            kind = i % 3
            if kind == 0:
                sd = b.m.BatteryServiceData()
                sd.data = rng.randrange(256)
            elif kind == 1:
                sd = b.m.TemperatureServiceData()
                sd.data = round(rng.uniform(-40, 120), 2)
            else:
                sd = b.m.UrlServiceData()
                sd.data = rng.choice(["http://www.google.com", "https://nrf24.io/x", "http://a.org/"])
                sd.pa_level_at_1_meter = rng.choice([-25, -4, 3])
            if rng.random() < 0.5:
                ble.name = b"nRF24"
            ev = b.advertise(chunks=[b.m.chunk(sd.buffer)])
            out.append(ev)
    return out


def replay_paths(args):
    paths = args
    out = []
    for labels in paths:
        b = Ble(share=True)
        ble, other = b.ble, b.other
        cur = None
        evs = []
        for (name, a) in labels:
            if name == "EnterBle":
                ble.__enter__()
                cur = ble
            elif name == "EnterOther":
                other.__enter__()
                other.channel = 76
                cur = other
            elif name == "ExitBlk":
                cur.__exit__(None, None, None)
                cur = None
            elif name == "Hop":
                ble.hop_channel()
            elif name == "SetCh":
                ble.channel = a[0]
            elif name == "ReadCh":
                _ = ble.channel
            elif name == "SetName":
                ble.name = b"nRF24L01" if a[0] else None
            elif name == "Advertise":
                if cur is ble and len(evs) % 2:
                    quiet_details(ble)
                ev = b.advertise(single=(b"\x07\x08", 0xFF))
                ev["history"] = [n + (str(x[0]) if x else "") for n, x in labels]
                evs.append(ev)
        out += evs
    return out


def run(chk):
    quick = chk.tier == "quick"
    chk.rule = ("(inputs) name length 0..20 x {str, bytes, None} x show_pa_level x PA level x chunk sizes within +-2 of the "
                "capacity boundary x 0..2 hops, list and (buf, data_type) forms, ServiceData helpers; (histories) every edge "
                "of BleAdv.tla (hop / channel= / enter / exit / other object's block / advertise, depth 7) replayed on a "
                "FakeBLE sharing the chip with an RF24; every loaded payload decoded by TLC; distinct = advertisements")
    r = tlc.mc("BleSelf", timeout=600)
    chk.add_tlc(r, "reference self-check: Decode inverts Encode, one-bit errors detected")
    g = Graph.load("BleAdv", "BleAdv", timeout=600, args=["-maxSetSize", "10000000"], workers=1) if False else None
    g = Graph.load("BleAdv", "BleAdv", timeout=600, workers=4)
    chk.add_tlc(g.result, "channel history model")
    rng = random.Random(chk.seed + 18)
    paths = g.tour() + g.random_walks(rng, 300 if quick else 5000, 16)
    lab = [[g.label(l) for (_, l, _) in p] for p in paths]
    specs = []
    for nlen in range(0, 21):
        for ntype in ("str", "bytes", "none"):
            if ntype == "none" and nlen:
                continue
            for show in (False, True):
                used = (nlen + 2 if ntype != "none" else 0) + (3 if show else 0)
                free = 18 - used
                for delta in (-2, -1, 0, 1, 2):
                    tot = free + delta
                    if tot < 0:
                        continue
                    for form in ("list1", "list2", "single"):
                        if form == "single":
                            sizes = [max(0, tot - 2)]
                        elif form == "list1" or tot < 4:
                            sizes = [tot] if tot >= 2 else []
                        else:
                            a = rng.randrange(2, tot - 1)
                            sizes = [a, tot - a]
                        specs.append((nlen, ntype, show, rng.choice(PA), sizes, rng.randrange(3), form))
    if quick:
        specs = rng.sample(specs, 700)
    else:
        specs = specs * 4
    vec = []
    with ProcessPoolExecutor(16) as ex:
        for res in ex.map(input_vectors, [(chk.seed * 31 + i, specs[i::16]) for i in range(16)]):
            vec += res
        for res in ex.map(service_vectors, [chk.seed + i for i in range(2 if quick else 16)]):
            vec += res
        hist = []
        for res in ex.map(replay_paths, [lab[i::16] for i in range(16)]):
            hist += res
    for e in g.edges:
        chk.case(("edge",) + e)
    for v in vec:
        chk.case(("in", str(v.get("spec")), tuple(v["payload"])))
    chk.traces += len(vec) + len(paths)
    chk.phase("exec")
    allv = vec + hist
    chk.sample(dict(kind="advertisement", vector={k: v for k, v in vec[3].items()}))
    verdicts, st = tlc.validate("TraceBle", "TraceBle", jsonable(allv), shard=400, quiet=True, timeout=2400)
    chk.add_stats(st, "payloads decoded by the Core-spec reference")
    chk.phase("judge")
    seen = {}
    for v, vd in zip(allv, verdicts):
        if vd["clause"] != "ok":
            hist_key = ""
            if "history" in v:
                hist_key = "history"
            key = "%s:%s:%s" % (vd["clause"], hist_key or "input", vd["detail"] if "free" not in (vd["detail"] or "") else "capacity")
            if key not in seen or len(v.get("history", [])) < len(seen[key][0].get("history", [])):
                seen[key] = (v, vd)
    for key, (v, vd) in seen.items():
        chk.violation(vd["clause"], key, dict(kind="adv", vector=v), vd["detail"])
    chk.extra["history_edges"] = len(g.edges)
    chk.assumptions += ["RF_CH 2 / 26 / 80 = advertising channel index 37 / 38 / 39", "FakeBLE payload_length left at 32 (zero padding after the CRC)"]
