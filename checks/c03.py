"""C03 - setters program the documented encoding; getters agree.
Rf24Api.tla = documented contract (register file after every call, getter values, rejections), model-checked for
well-formedness over all call sequences to depth 2/3; the real RF24 is driven through all singles and pairs (thorough:
triples of a reduced alphabet) and random depth-40 histories on the radio double; TraceRf24Api.tla judges every step
against the contract (Encoding, Getter, Reject, Frame, NoIllegalWrite) and the final context re-entry (ShadowCoherent)."""
import itertools
import json
import os
import random
from concurrent.futures import ProcessPoolExecutor

from harness import tlc, sim, rfapi
from harness.ev import jsonable


def letters(ops=None, args=None):
    out = []
    for op in (ops or rfapi.OPS):
        for a in (args or {}).get(op, rfapi.OPS[op]):
            out.append((op, a))
    return out


def fresh(lite=False):
    s = sim.Sched()
    air = sim.Air(s)
    sim.install(s)
    if lite:
        from circuitpython_nrf24l01.rf24_lite import RF24 as cls
        nrf, chip = sim.new_radio(air, "r", cls=cls, spidev=False)
    else:
        nrf, chip = sim.new_radio(air, "r")
    return nrf, chip


def run_seqs(args):
    seqs, lite = args
    out = []
    for seq in seqs:
        nrf, chip = fresh(lite)
        ev = []
        for (op, a) in seq:
            ev.append(rfapi.do_call(nrf, chip, op, a))
        if not lite:
            ev.append(rfapi.reenter(nrf, chip))
        out.append(dict(lite=lite, ev=ev))
    return out


def run_restarts(seqs):
    """histories with ("#construct", "plus"|"nonplus"|"again") elements: a new driver object on a new chip of that
    variant / on the same, still configured chip (warm restart)"""
    out = []
    for seq in seqs:
        s = sim.Sched()
        air = sim.Air(s)
        sim.install(s)
        chip, nrf, ev = None, None, []
        for (op, a) in seq:
            if op == "#construct":
                if a != "again":
                    chip = sim.Chip(air, "r", plus=(a == "plus"))
                nrf, e = rfapi.construct(chip)
                ev.append(e)
                if nrf is None:
                    break
            else:
                ev.append(rfapi.do_call(nrf, chip, op, a))
        out.append(dict(lite=False, ev=ev))
    return out


arg_repr = rfapi.arg_repr


def judge(chk, seqs, traces, single_bad, what, lite=False):
    found = {}
    for calls, ev, v in rfapi.judge_forest(chk, seqs, traces, what, lite):
        if ev["k"] == "call":
            op, a = calls[-1]
            key = "%s:%s(%s)" % (v["clause"], op, a)
            if len(calls) == 1:
                single_bad.add((v["clause"], op, a))
        else:
            culprits = ["%s(%s)" % (op, a) for (op, a) in calls if (v["clause"], op, a) in single_bad]
            key = "%s:%s" % (v["clause"], culprits[0] if culprits else "+".join("%s(%s)" % c for c in calls))
            if len(calls) == 1:
                single_bad.add((v["clause"],) + tuple(calls[0]))
        if key not in found or len(calls) < len(found[key][0]):
            found[key] = (calls, ev, v)
    for key, (calls, ev, v) in found.items():
        chk.violation(v["clause"], key, dict(kind="calls", lite=lite, seq=[list(c) for c in calls], failing_event=ev), v["detail"])
    return found


def run(chk, lite=False):
    quick = chk.tier == "quick"
    chk.rule = ("call sequences over the alphabet in harness/rfapi.py (documented domain and beyond): all singles, all pairs "
                "(thorough: + all triples of a reduced alphabet), random depth-40 histories; each executed on a fresh RF24 on "
                "the radio double, every step judged by TraceRf24Api.tla against the Rf24Api.tla contract; distinct = sequences")
    L = letters()
    wd = tlc.workdir("c03")
    alpha = os.path.join(wd, "alphabet.json")
    with open(alpha, "w") as f:
        json.dump(jsonable([rfapi.encode(op, a) for op, a in L]), f)
    r = tlc.mc("Rf24ApiMC", "Rf24ApiMC" if quick else "Rf24ApiMC_thorough", env={"ALPHA_FILE": alpha}, timeout=2400)
    chk.add_tlc(r, "contract well-formedness over all call sequences (depth %d)" % (2 if quick else 3))
    chk.phase("mc")
    rng = random.Random(chk.seed + 3)
    single_bad = set()
    with ProcessPoolExecutor(16) as ex:
        def execute(seqs):
            chunks = [seqs[i::64] for i in range(64)]
            res = list(ex.map(run_seqs, [(c, False) for c in chunks]))
            out = [None] * len(seqs)
            for i, r_ in enumerate(res):
                out[i::64] = r_
            return out
        singles = [(x,) for x in L]
        judge(chk, singles, execute(singles), single_bad, "singles")
        pairs = list(itertools.product(L, repeat=2))
        tp = execute(pairs)
        chk.phase("exec pairs")
        judge(chk, pairs, tp, single_bad, "all pairs")
        chk.phase("judge pairs")
        for s_ in singles + pairs:
            chk.case(("s",) + tuple((op, arg_repr(a)) for op, a in s_))
        chk.traces += len(singles) + len(pairs)
        chk.sample(dict(kind="pair", seq=[[op, arg_repr(a)] for op, a in pairs[len(pairs) // 3]],
                        first_event=tp[len(pairs) // 3]["ev"][0]))
        if not quick:
            red = [(op, rfapi.OPS[op][0]) for op in rfapi.OPS] + [(op, rfapi.OPS[op][-1]) for op in rfapi.OPS
                                                                    if len(rfapi.OPS[op]) > 1 and op.endswith("=")]
            triples = list(itertools.product(red, repeat=3))
            judge(chk, triples, execute(triples), single_bad, "all triples of the reduced alphabet (%d letters)" % len(red))
            for s_ in triples:
                chk.case(("t",) + tuple((op, arg_repr(a)) for op, a in s_))
            chk.traces += len(triples)
            chk.phase("triples")
        n = 150 if quick else 5000
        rnd = [tuple(rng.choice(L) for _ in range(40)) for _ in range(n)]
        judge(chk, rnd, execute(rnd), single_bad, "random depth-40 histories")
        for s_ in rnd:
            chk.case(("r",) + tuple((op, arg_repr(a)) for op, a in s_))
        chk.traces += n
        chk.phase("random")
        # warm restarts: session A, then a new driver object on the same chip, then session B; both chip variants
        noncw = [x for x in L if x[0] not in ("start_carrier_wave", "stop_carrier_wave", "is_plus_variant")]
        feat = [x for x in noncw if x[0] in ("dynamic_payloads=", "set_dynamic_payloads", "ack=", "allow_ask_no_ack=", "load_ack",
                                             "auto_ack=", "listen=", "power=")]
        rs = []
        for variant in ("plus", "nonplus"):
            for x in feat:
                for y in feat:
                    rs.append((("#construct", variant), x, ("#construct", "again"), y, ("dynamic_payloads", None), ("ack", None)))
            off = [("dynamic_payloads=", False), ("allow_ask_no_ack=", False), ("ack=", False), ("allow_ask_no_ack=", True)]
            for x in off:       # sessions that end with every feature off (FEATURE = 0), then one that wants them again
                for y in off:
                    for z in (("dynamic_payloads=", True), ("ack=", True), ("allow_ask_no_ack=", True)):
                        rs.append((("#construct", variant), x, y, ("#construct", "again"), z, ("dynamic_payloads", None)))
            for _ in range(40 if quick else 1500):
                A = tuple(rng.choice(noncw) for _ in range(rng.choice([1, 3, 8])))
                B = tuple(rng.choice(noncw) for _ in range(rng.choice([2, 6, 12])))
                rs.append((("#construct", variant),) + A + (("#construct", "again"),) + B)
        chunks = [rs[i::32] for i in range(32)]
        res = list(ex.map(run_restarts, chunks))
        tr = [None] * len(rs)
        for i, r_ in enumerate(res):
            tr[i::32] = r_
        judge(chk, rs, tr, single_bad, "warm restarts (new driver object on a configured chip), plus and non-plus variant")
        for s_ in rs:
            chk.case(("w",) + tuple((op, arg_repr(a)) for op, a in s_))
        chk.traces += len(rs)
        chk.phase("restarts")
    chk.exhaustive = True
    chk.extra["alphabet_letters"] = len(L)
    chk.assumptions += ["nRF24L01+ (plus variant) register model of DESIGN.md appendix A; writes of reserved/out-of-range "
                        "values are recorded by the double even though the chip would mask them",
                        "pa_level invalid input: rejection with ValueError (code, tests) or the documented default are both accepted",
                        "open_tx_pipe outside TX mode and listen=False without auto-ack on pipe 0 leave pipe 0 unspecified (accepted as observed)"]
