"""C02 - send()/resend() report the true fate of the payload and always terminate.
Rf24Send.tla: the driver's send/resend algorithm (one action per SPI transaction, cached pre-command STATUS) composed
with the ESB engine under a free fate per attempt, model-checked for the C02 clauses (and for termination under
fairness).  Binding: the real driver runs every loss pattern (packet lost / ACK lost / delivered per attempt) for small
retry setups and call histories, plus seeded large setups, against a listening / deaf / full peer on the simulated air;
TraceLink.tla judges results against the air's ground truth."""
import itertools
import random
from concurrent.futures import ProcessPoolExecutor

from harness import tlc, sim, link
from harness.ev import jsonable
from checks.c01 import payload


def patterns(n):
    """all fate scripts for up to n attempts: a 'D' ends the script"""
    out = []
    for k in range(n + 1):
        for pre in itertools.product("AP", repeat=k):
            out.append("".join(pre) + ("D" if k < n else ""))
    return sorted(set(out))


def scenario(args):
    cfg, calls, seed, tx_lite, rx_lite = args
    rng = random.Random(seed)
    lp = link.LinkPair(cfg, tx_lite=tx_lite, rx_lite=rx_lite, tx_spidev=not tx_lite and seed % 2 == 0,
                       rx_spidev=not rx_lite and seed % 3 == 0, seed=seed)
    peer = cfg.get("peer", "listening")
    lp.peer_ok = peer == "listening"
    if peer == "deaf":
        lp.rx.listen = False
    elif peer == "full":
        for i in range(3):
            lp.call("send", bytes([0xF0, i]))
    ev = []
    k = 0
    for c in calls:
        k += 1
        if cfg.get("ackpl") and peer == "listening" and not c.get("noload"):
            lp.load_ack(bytes([0xAC, k, seed & 0xFF]))
        if c["api"] == "txread":
            ev.append(lp.txread())
        elif c["api"] == "ctx":
            if tx_lite:
                continue                 # (rf24_lite has no context manager)
            ev.append(lp.ctx())
        elif c["api"] == "queue":
            ev.append(lp.queue_only(c["n"]))
        elif c["api"] == "rxturn":
            ev.append(lp.rxturn(c["n"]))
        elif c["api"] == "resend":
            ev.append(lp.call("resend", send_only=c.get("send_only", False), fates=c.get("fates")))
        elif c["api"] == "sendlist":
            bufs = [payload(n_, 10 * k + i, rng) for i, n_ in enumerate(rng.sample(range(1, 33), c["n"]))]   # distinct lengths
            ev.append(lp.call("send", bufs, fr=c.get("fr", 0), send_only=c.get("send_only", False), fates=c.get("fates")))
        else:
            buf = payload(c.get("len", 5), k, rng)
            ev.append(lp.call("send", buf, ask_no_ack=c.get("nak", False), fr=c.get("fr", 0),
                              send_only=c.get("send_only", False), fates=c.get("fates")))
        if peer == "listening":
            ev.append(lp.drain())
    return dict(cfg=lp.tla_cfg(), ev=ev, meta=dict(cfg=cfg, calls=calls, seed=seed, lite=[tx_lite, rx_lite]))


def build_jobs(chk, tx_lite=False, rx_lite=False):
    quick = chk.tier == "quick"
    rng = random.Random(chk.seed + 2)
    jobs = []
    sid = [0]

    def add(cfg, calls):
        sid[0] += 1
        jobs.append((cfg, calls, chk.seed * 100003 + sid[0], tx_lite, rx_lite))
    arcs = [0, 1, 2]
    frs = [0, 1] if quick else [0, 1, 2]
    # (a) single send, every fate pattern
    for arc in arcs:
        for fr in frs:
            n = (1 + arc) * (1 + fr)
            if n > (6 if quick else 9):
                continue
            for pat in patterns(n):
                for mode in ("aa", "ackpl"):
                    for so in (False, True):
                        if quick and so and mode == "aa" and len(pat) > 3:
                            continue
                        cfg = dict(arc=arc, ard=250, ackpl=(mode == "ackpl"), dyn=True)
                        add(cfg, [dict(api="send", fr=fr, send_only=so, fates=list(pat))])
    # no-ack modes: nothing is awaited whatever the medium does
    for pat in ("", "P", "A", "PP"):
        add(dict(arc=2, ard=250), [dict(api="send", nak=True, fates=list(pat))])
        if not tx_lite:
            add(dict(arc=2, ard=250, aa0=False), [dict(api="send", fates=list(pat))])
    # peers that cannot answer
    for peer in ("deaf", "full"):
        for arc in (0, 2):
            for fr in (0, 1):
                add(dict(arc=arc, ard=250, peer=peer), [dict(api="send", fr=fr), dict(api="send", fr=0), dict(api="resend")])
    # (b) histories of consecutive calls, every fate pattern per call for small N
    alpha = []
    for fr in (0, 1):
        for pat in patterns((1 + 1) * (1 + fr)):
            alpha.append(dict(api="send", fr=fr, fates=list(pat)))
    for pat in patterns(2):
        alpha.append(dict(api="resend", fates=list(pat)))
    alpha.append(dict(api="sendlist", n=2, fates=list("PPD")))
    alpha.append(dict(api="sendlist", n=2, fates=list("PPPP")))
    pairs = list(itertools.product(alpha, repeat=2))
    if quick:
        pairs = rng.sample(pairs, 250)
    for cs in pairs:
        add(dict(arc=1, ard=250), list(cs))
    triples = rng.sample(list(itertools.product(alpha, repeat=3)), 150 if quick else 4000)
    for cs in triples:
        add(dict(arc=1, ard=250, ackpl=rng.random() < 0.3), list(cs))
    # ACK payloads x send_only: stale payloads in the PTX's RX FIFO must never be returned as this call's ACK payload
    so_alpha = [dict(api=a, fr=0, send_only=so, fates=list(f)) for a in ("send", "resend") for so in (False, True)
                for f in ("D", "PP")]
    so_alpha += [dict(api="send", fr=fr, send_only=False, fates=list(f), noload=True) for fr in (0, 1) for f in ("D", "PPD")]   # empty ACKs
    # a forced retry made with send_only (the first cycle fails, the re-sent payload gets through or does not): what earlier
    # send_only calls left in the RX FIFO is still there for read() afterwards
    so_alpha += [dict(api="send", fr=1, send_only=True, fates=list(f)) for f in ("PPD", "PPPP")]
    so_alpha.append(dict(api="txread"))          # the PTX reads the ACK payloads that send_only calls left in its RX FIFO
    so_hist = list(itertools.product(so_alpha, repeat=3))
    if quick:
        so_hist = rng.sample(so_hist, 300)
    for cs in so_hist:
        add(dict(arc=1, ard=250, ackpl=True), list(cs))
    for second in (dict(api="send", fr=1, send_only=True, fates=list("PPD")), dict(api="send", fr=2, send_only=True, fates=list("PPPPD")),
                   dict(api="resend", send_only=True, fates=list("D")), dict(api="send", fr=1, send_only=True, fates=list("PPPP"))):
        add(dict(arc=1, ard=250, ackpl=True), [dict(api="send", fr=0, send_only=True, fates=["D"]), second, dict(api="txread")])
        add(dict(arc=1, ard=250, ackpl=True), [dict(api="send", fr=0, send_only=True, fates=["D"]), dict(api="send", fr=0, send_only=True, fates=["D"]),
                                               second, dict(api="txread")])
    # an ACK payload left in the PTX's RX FIFO, a failed call, the application reads its RX FIFO, then the next call
    for fail in (dict(api="send", fr=0, send_only=True, fates=list("PP")), dict(api="send", fr=1, send_only=False, fates=list("PPPP")),
                 dict(api="send", fr=0, send_only=False, fates=list("AA"))):
        for nxt in so_alpha:
            add(dict(arc=1, ard=250, ackpl=True),
                [dict(api="send", fr=0, send_only=True, fates=["D"]), fail, dict(api="txread"), nxt])
    # the `with` block left and entered again between two calls (after a failed one, after a successful one)
    for first in (dict(api="send", fr=0, fates=list("PP")), dict(api="send", fr=1, fates=list("PPPP")), dict(api="send", fr=0, fates=["D"]),
                  dict(api="send", fr=0, fates=list("AA"))):
        for nxt in (dict(api="send", fr=0, fates=["D"]), dict(api="send", fr=0, fates=list("PP")), dict(api="resend", fates=["D"]),
                    dict(api="sendlist", n=2, fates=list("DD"))):
            add(dict(arc=1, ard=250), [first, dict(api="ctx"), nxt, dict(api="send", fr=0, fates=["D"])])
    # a TX FIFO left full by write(write_only=True) calls (CE low, nothing sent): the next send() still terminates and reports
    # its own payload's fate
    if True:
        for fr in (0, 1):
            for pat in ("D", "PP"):
                add(dict(arc=1, ard=250), [dict(api="queue", n=3), dict(api="send", fr=fr, fates=list(pat)), dict(api="send", fr=0, fates=["D"])])
            # ... and keeps what the caller asked for: no acknowledgement requested means one packet and True, heard or not
            for peer in ("listening", "deaf"):
                add(dict(arc=2, ard=250, peer=peer), [dict(api="queue", n=3), dict(api="send", fr=fr, nak=True, fates=["D"]),
                                                      dict(api="resend"), dict(api="send", fr=0, nak=True, fates=["D"])])
    # the transmitter took a turn as receiver and left ACK payloads nobody fetched: they never leak into the next send()
    if not tx_lite:
        for nda in (False, True):
            for n_left in (1, 2, 3):
                for nxt in (dict(api="send", fr=0, fates=["D"]), dict(api="send", fr=1, fates=list("PPD")), dict(api="send", fr=0, fates=list("PP"))):
                    add(dict(arc=1, ard=250, ackpl=True, no_dyn_ack=nda), [dict(api="rxturn", n=n_left), nxt, dict(api="send", fr=0, fates=["D"])])
    # (c) seeded large setups
    for _ in range(60 if quick else 1500):
        arc = rng.randrange(16)
        ackpl = rng.random() < 0.3
        cfg = dict(arc=arc, ard=rng.choice(range(250, 4001, 250)), rate=rng.choice([1, 2, 250]), ackpl=ackpl,
                   dyn=ackpl or rng.random() < 0.7, pl=rng.randrange(1, 33), pipe=rng.randrange(6), aw=rng.choice([3, 4, 5]))
        calls = []
        for _c in range(rng.randrange(1, 9)):
            fr = rng.randrange(4)
            n = (1 + arc) * (1 + fr)
            x = rng.random()
            if x < 0.3:
                fates = ["P" if rng.random() < 0.5 else "A" for _i in range(n)]                      # all fail
            elif x < 0.5:
                fates = ["P"] * (1 + arc) + ["D"]                                                  # first forced try fails
            elif x < 0.7:
                fates = [rng.choice("PAD") for _i in range(n)]
            else:
                fates = []
            api = rng.choice(["send", "send", "send", "resend", "sendlist"])
            calls.append(dict(api=api, fr=fr if api != "resend" else 0, fates=fates, n=rng.choice([1, 2, 3]),
                              len=rng.randrange(1, 33), send_only=rng.random() < 0.3))
        add(cfg, calls)
    return jobs


def run(chk, tx_lite=False, rx_lite=False):
    chk.rule = ("fate scripts: every sequence over {packet lost, ACK lost, delivered} for (1+arc)(1+force_retry) attempts with "
                "arc 0..2, force_retry 0..1 (thorough 0..2), auto-ack / ACK-payload / no-ack modes, send_only on/off, peer "
                "listening / deaf / RX FIFO full; call histories of 2-3 consecutive send/resend/list calls with every pattern "
                "per call; seeded setups with arc 0..15, all ard values, force_retry 0..3; distinct = scenarios")
    quick = chk.tier == "quick"
    r = tlc.mc("Rf24Send", "Rf24Send" if quick else "Rf24Send_thorough", timeout=1500)
    chk.add_tlc(r, "L2 send/resend algorithm satisfies the C02 clauses under every fate choice")
    r2 = tlc.mc("Rf24Send", "Rf24Send_live", timeout=900)
    chk.add_tlc(r2, "termination under weak fairness")
    r3 = tlc.run("Rf24Send", "Rf24Send_stale", timeout=300)
    if r3["ok"]:
        raise tlc.TlcError("self-check: the stale-STATUS variant of the algorithm must violate a C02 clause in the model")
    chk.extra["stale_variant_counterexample"] = r3.get("violated")
    r4 = tlc.mc("Rf24Send", "Rf24Send_queued", timeout=600)
    chk.add_tlc(r4, "TX FIFO left full by write_only uploads: clauses + termination with the reload step")
    r5 = tlc.run("Rf24Send", "Rf24Send_queued_old", timeout=300)
    if r5["ok"]:
        raise tlc.TlcError("self-check: without the reload step send() must not terminate on a full TX FIFO in the model")
    chk.extra["no_reload_variant_counterexample"] = r5.get("violated") or "Termination"
    chk.phase("mc")
    jobs = build_jobs(chk, tx_lite, rx_lite)
    with ProcessPoolExecutor(16) as ex:
        traces = list(ex.map(scenario, jobs, chunksize=8))
    chk.phase("exec")
    for j in jobs:
        chk.case((str(sorted(j[0].items())), str(j[1])))
    chk.traces += len(traces)
    chk.sample(dict(cfg=traces[5]["meta"]["cfg"], calls=traces[5]["meta"]["calls"], first_event=traces[5]["ev"][0]))
    verdicts, st = tlc.validate("TraceLink", "TraceLink", jsonable([dict(cfg=t["cfg"], ev=t["ev"]) for t in traces]),
                                shard=500, timeout=2400, multi=True)
    chk.add_stats(st, "link traces")
    chk.phase("judge")
    found = {}
    for t, vs in zip(traces, verdicts):
        for v in vs[:1]:      # later failures in one history are usually consequences of the first
            e = t["ev"][v["at"] - 1]
            src = t["ev"][v["at"] - 2] if e["k"] == "drain" else e
            import re as _re
            key = "%s:%s:%s" % (v["clause"], src.get("api", src["k"]) + ("+fr" if src.get("fr") else ""), _re.sub(r"\d+", "N", v["detail"]))
            ncalls = sum(1 for x in t["ev"][: v["at"]] if x["k"] != "drain")
            if key not in found or ncalls < found[key][0]:
                found[key] = (ncalls, t, v, src)
    for key, (nc, t, v, src) in found.items():
        chk.violation(v["clause"], key, dict(kind="link", meta=t["meta"], at=v["at"], failing_event=src), v["detail"])
    chk.assumptions += ["STATUS is clocked out before the command executes (datasheet 8.3.1)",
                        "radio in TX mode (listen = False) before the first call", "ACK always inside the ARD window",
                        "payload contents are unique per call (the 2-bit PID filter is not provoked)"]
