"""NetNode.tla (L2 model of the network node algorithm) and its binding to the real RF24Network nodes.

model():    exhaustive TLC runs of the design model (loss-free sequential = the C05/C14 quantifier, free loss, concurrent
            writes) and the three configurations that MUST fail (documented observations: a stale NETWORK_ACK is believed,
            a relay echoes a multicast back to its origin, two relays deliver a multicast twice, lost radio ACKs duplicate
            a frame, the NETWORK_ACK of the first fragment makes write() report True before the last fragment arrived).
conform():  executions of real nodes on the simulated air, recorded at the model's linearisation points (application
            call, packet entering a radio's RX FIFO, radio-level result of a transmission, payload taken out of the FIFO,
            return, application read) and validated event by event by the total monitor TraceNetNode.tla.
"""
import itertools
import os
import random
import struct
from concurrent.futures import ProcessPoolExecutor

from harness import tlc, net
from harness.ev import jsonable

# topologies: (tree, relays, nomc)
TOPOS = {
    "A": ([0, 0o1, 0o2, 0o11, 0o111], [0o1], [0o2]),
    "B": ([0, 0o1, 0o2, 0o11, 0o12, 0o21], [], []),
    "C": ([0, 0o1, 0o3, 0o11, 0o31, 0o111, 0o1111], [0o1, 0o11], []),
}
MC_OK = ["NetNode_c05", "NetNode_loss", "NetNode_conc", "NetNode_live", "NetNode_frag", "NetNode_fragloss"]
MC_MUST_FAIL = {"NetNode_stale": "AckAnswersTheAwaited", "NetNode_echo": "C14_NoEcho", "NetNode_relay2": "C05_AtMostOnce",
                "NetNode_dup": "C05_AtMostOnce", "NetNode_fragtrue": "TrueMeansWholeMessageArrived"}


def lvl(a):
    return 0 if a == 0 else len(oct(a)) - 2


def route(s, d):
    out = [s]
    while s != d:
        if lvl(d) > lvl(s) and (d & ((1 << (3 * lvl(s))) - 1)) == s:
            s = d & ((1 << (3 * (lvl(s) + 1))) - 1)
        else:
            s = s & ((1 << (3 * (lvl(s) - 1))) - 1) if lvl(s) > 1 else 0
        out.append(s)
    return out


def model(chk, quick):
    for cfg in MC_OK if not quick else ["NetNode_quick", "NetNode_live", "NetNode_fragq"]:
        r = tlc.mc("NetNode", cfg, timeout=1800)
        chk.add_tlc(r, "NetNode.tla %s: the node algorithm satisfies the C05/C13/C14 clauses on the bounded tree" % cfg)
    for cfg, inv in MC_MUST_FAIL.items():
        r = tlc.run("NetNode", cfg, timeout=600)
        if r.get("violated") != inv:
            raise tlc.TlcError("NetNode %s should exhibit the documented behaviour (%s), got %s" % (cfg, inv, r.get("violated")))
        chk.add_tlc(r, "NetNode.tla %s: TLC exhibits the documented observation (%s is refuted)" % (cfg, inv))


# ---- recording ---------------------------------------------------------------------------------------------------
def frame_of(data):
    if len(data) < 8:
        return dict(src=-2, dst=-2, typ=-2, rsv=0, id=-2, msg=list(data))
    fr, to, fid, typ, rsv = struct.unpack("<HHHBB", bytes(data[:8]))
    return dict(src=fr, dst=to, typ=typ, rsv=rsv, id=fid, msg=list(data[8:]))


def job_mcast(src_name, msg, mtype, level):
    """multicast() recorded with the frame id the node itself chose (read from its frame_buf right after the call)"""
    def fn(ns, name, job):
        o = ns.objs[name]
        e = dict(k="call", n=name, api="multicast", level=-1 if level is None else level, type=mtype, msg=list(msg),
                 t=ns.s.now // 1000, job=ns.turn, src=o.node_address, to=64, id=0, chk=[], lvl=o.multicast_level,
                 tx_timeout=o.tx_timeout, route_timeout=o.route_timeout)
        ns.ev.append(e)
        exc, r = "none", False
        try:
            r = o.multicast(msg, mtype, level)
        except net.sim.WatchdogExpired:
            raise
        except Exception as x:  # noqa
            exc = type(x).__name__
        e["id"] = o.frame_buf.header.frame_id
        ns.rec_ret(name, "multicast", exc, res=bool(r), job=ns.turn, dt=0)
    return dict(n=src_name, fn=fn, budget_ms=6000)


def scenario(args):
    topo, kind, spec, faults, seed, jitter = args
    tree, relays, nomc = TOPOS[topo]
    nodes = []
    for a in tree:
        opts = {}
        if a in nomc:
            opts["allow_multicast"] = False
        if a in relays:
            opts["multicast_relay"] = True
        nodes.append(dict(addr=a, kind="net", opts=opts, reassign=a in nomc))
    name = {nd["addr"]: "n%d" % i for i, nd in enumerate(nodes)}
    rules = [dict(r, src=name[r["src"]]) for r in faults]
    ns = net.NetSim(nodes, seed=seed, jitter=jitter, faults=rules, gap_ms=350)
    addr = {v: k for k, v in name.items()}
    pops = []
    for c in ns.chips.values():
        c.pop_log = pops
    jobs, scripts = [], {}
    injected = []
    if kind == "backlog":
        # several frames already wait in a router's RX FIFO (its radio acknowledged them while the application was busy)
        # and the next hop does not answer during the router's first `lost` packets (it is busy), then does
        relay, frames = spec

        def body(ns_, nm):
            for (s, d, typ, n, fid) in frames:
                raw = struct.pack("<HHHBB", s, d, fid, typ, 0) + bytes((i * 7 + fid) & 0xFF for i in range(n))
                pipe = 5 if lvl(s) < lvl(relay) or s == 0 else (s >> (3 * lvl(relay))) & 7 if (s & ((1 << (3 * lvl(relay))) - 1)) == relay else 5
                r = ns_.chips[nm].inject(pipe, raw)
                injected.append((ns_.s.now // 1000, dict(k="inject", m=relay, f=frame_of(raw), how=str(r[1]))))
            return 0
        jobs.append(net.job_call(name[relay], "inject", body, budget_ms=8000))
    elif kind == "seq":
        for (s, d, typ, n) in spec:
            msg = bytes((i * 5 + typ + s) & 0xFF for i in range(n if d != "mc" else 5))
            if d == "mc":
                jobs.append(job_mcast(name[s], msg, typ, n))
            else:
                jobs.append(net.job_write(name[s], d, typ, msg, budget_ms=6000))
    else:   # concurrent: writes started by scripts at the given offsets (ms)
        for k, (at_ms, s, d, typ, n) in enumerate(spec):
            msg = bytes((i * 5 + typ + s + k) & 0xFF for i in range(n))
            jw = net.job_write(name[s], d, typ, msg)
            scripts.setdefault(name[s], []).append((at_ms * 1_000_000, (lambda f, j: (lambda ns_, nm: f(ns_, nm, dict(jid=j))))(jw["fn"], 100 + k)))
    ns.run(jobs, scripts=scripts)
    # ---- the model's events
    ev = []
    for e in ns.ev:
        if e["k"] == "call" and e["api"] in ("write", "multicast"):
            o = ns.objs[e["n"]]
            f = dict(src=e["src"], dst=e["to"], typ=e["type"], rsv=0, id=e["id"], msg=e["msg"])
            if e["api"] == "write":
                ev.append((e["t"], 4, dict(k="write", n=e["src"], f=f)))
            else:
                ev.append((e["t"], 4, dict(k="mcast", n=e["src"], f=f, lvl=e["level"] if e["level"] >= 0 else e["lvl"])))
        elif e["k"] == "ret" and e["api"] in ("write", "multicast"):
            ev.append((e["t"], 4, dict(k="ret", n=addr[e["n"]], res=bool(e["res"]), exc=e["exc"], proj=ns.projs[e["proj"] - 1],
                                       lvl=e["lvl"], amc=e["amc"])))
        elif e["k"] == "deq":
            ev.append((e["t"], 4, dict(k="deq", n=addr[e["n"]], f=dict(src=e["from"], dst=e["to"], typ=e["type"], rsv=0, id=e["id"], msg=e["msg"]))))
        elif e["k"] in ("crash", "hang"):
            ev.append((e["t"], 4, dict(k="crash", n=addr.get(e.get("n"), -1), what=str(e.get("exc", "hang")))))
    groups = {}
    for p in ns.air.log:
        g = groups.setdefault((p["src"], p["load"]), dict(first=p, last=p, ok=False, got=set()))
        g["last"] = p
        f = frame_of(p["data"])
        for (rn, pipe, how) in p["rx"]:
            if how == "new":
                ev.append((p["t"], 1, dict(k="arrive", n=addr[p["src"]], m=addr[rn], f=f, pipe=pipe, want_ack=bool(p["want_ack"]),
                                           again=rn in g["got"])))
                g["got"].add(rn)
        if not p["want_ack"] or p["ack_ok"]:
            g["ok"] = True
    for (src, load), g in groups.items():
        ev.append((g["last"]["t"], 2, dict(k="txdone", n=addr[src], ok=g["ok"], f=frame_of(g["first"]["data"]))))
    for (t, e) in injected:
        ev.append((t, 0, e))
    for (t, nm, pipe, data) in pops:
        ev.append((t // 1000, 3, dict(k="rxpop", n=addr[nm], f=frame_of(data), pipe=pipe)))
    ev.sort(key=lambda x: (x[0], x[1]))
    final = [dict(n=a, proj=net.rfapi.state(ns.chips[nm]), lvl=ns.objs[nm].multicast_level, amc=bool(ns.objs[nm].allow_multicast))
             for a, nm in name.items()]
    out = [e for (t, _, e) in ev]
    crashes = [e for e in out if e["k"] == "crash"]
    if crashes:
        # the run was cut short (a call that never returns, a network that never becomes quiet, an exception out of a node):
        # the monitor follows the first part of the execution and then meets the crash event itself
        out = [e for e in out if e["k"] != "crash"][:1500] + crashes[:1]
    else:
        out.append(dict(k="end", nodes=final))
    # the callers' own ids: the model compares whole frames, the write event carries the id the header got
    return dict(topo=topo, ev=out, prefix=ns.prefix, suffix=ns.suffix, meta=dict(topo=topo, kind=kind, spec=[list(map(str, x)) for x in spec] if kind != "backlog" else str(spec),
                                             faults=[dict(r) for r in faults], seed=seed, jitter=jitter))


def jobs_for(seed, quick):
    rng = random.Random(seed)
    out = []
    for topo, (tree, relays, nomc) in TOPOS.items():
        pairs = [(s, d) for s in tree for d in tree]
        rng.shuffle(pairs)
        # (a) every pair, one write each, loss-free, both type classes; several writes per simulation
        for typ in (1, 65, 127):
            sel = pairs if not quick else pairs[: max(8, len(pairs) // 3)]
            for i in range(0, len(sel), 6):
                out.append((topo, "seq", [(s, d, typ, rng.choice((rng.randrange(0, 25), rng.randrange(0, 25), 25, 48, 49, rng.randrange(25, 100))))
                                          for (s, d) in sel[i:i + 6]], [], rng.randrange(1 << 30), 3000))
        # (b) one failing transmission on a routed ack-type write: every hop of the forward path and of the ACK path, lost
        #     packet or lost radio ACKs
        routed = [(s, d) for (s, d) in pairs if len(route(s, d)) > 2]
        for (s, d) in routed if not quick else routed[:6]:
            r = route(s, d)
            for hop, kind in [(h, "user") for h in r[:-1]] + [(h, "ack") for h in route(r[-2], s)[:-1]]:
                for fate in ("P", "A"):
                    if quick and rng.random() < 0.5:
                        continue
                    out.append((topo, "seq", [(s, d, 65, 7)], [dict(src=hop, kind=kind, fate=fate)], rng.randrange(1 << 30), 3000))
        # (c) multicasts from every sender class to every level (senders that allow multicast)
        senders = [a for a in tree if a not in nomc]
        for s in senders if not quick else senders[:3]:
            out.append((topo, "seq", [(s, "mc", 3 + k, l) for k, l in enumerate((0, 1, 2, 3, None))], [], rng.randrange(1 << 30), 3000))
        # (e) a backlog of frames in a router's RX FIFO while its next hop is busy for part of / one / two retry cycles
        routers = [a for a in tree if any(route(s, d)[1:-1].count(a) for s in tree for d in tree if s != d)]
        for relay in routers if not quick else routers[:2]:
            for lost in (0, 1, 6, 7, 12) if not quick else (0, 6):
                for w in (2, 3):
                    cands = [(s, d) for s in tree for d in tree if s != d and relay in route(s, d)[1:-1] and route(s, d)[route(s, d).index(relay) - 1] != d]
                    rng.shuffle(cands)
                    frs = []
                    for j in range(w):
                        s, d = cands[0] if j else cands[0]
                        # frames of one neighbour (they arrive on one pipe, as a stream of fragments would)
                        prev = route(s, d)[route(s, d).index(relay) - 1]
                        frs.append((s, d, rng.choice((1, 65)), rng.randrange(0, 24), 900 + j))
                    out.append((topo, "backlog", (relay, frs), [dict(src=relay, kind="any", fate="P", count=lost)] if lost else [],
                                rng.randrange(1 << 30), 3000))
        # (d) concurrent writes (cross traffic through a common router, an origin that forwards while it waits)
        for _ in range(4 if quick else 40):
            k = rng.choice((2, 2, 3))
            srcs = rng.sample(tree, k)
            spec = []
            for s in srcs:
                d = rng.choice([x for x in tree if x != s])
                spec.append((rng.choice((0, 0, 1, 3, 10)), s, d, rng.choice((1, 65, 65)), rng.randrange(0, 20)))
            out.append((topo, "conc", spec, [], rng.randrange(1 << 30), 3000))
    return out


CFG = """SPECIFICATION TSpec
CONSTANTS
  Tree = {%s}
  Relays = {%s}
  NoMc = {%s}
  Types = {1}
  Lens = {1}
  FragLen = 24
  MaxWrites = 0
  MaxLoss = 0
  Concurrent = TRUE
  FreeTimeout = TRUE
  Redeliver = TRUE
INVARIANT Report
CHECK_DEADLOCK FALSE
"""


def judge(traces, wd_name="netnode"):
    """-> list of verdict lists aligned with traces (first failing event per trace), stats"""
    res = [None] * len(traces)
    stats = dict(generated=0, distinct=0, runs=0, wall=0.0)
    wd = tlc.workdir("trace_" + wd_name)
    for topo, (tree, relays, nomc) in TOPOS.items():
        idx = [i for i, t in enumerate(traces) if t["topo"] == topo]
        if not idx:
            continue
        cfg = os.path.join(wd, "TraceNetNode_" + topo)
        with open(cfg + ".cfg", "w") as f:
            f.write(CFG % (", ".join(map(str, tree)), ", ".join(map(str, relays)), ", ".join(map(str, nomc))))
        sub = os.path.join(wd, topo)
        os.makedirs(sub, exist_ok=True)
        v, st = tlc.validate("TraceNetNode", cfg, jsonable([dict(ev=traces[i]["ev"], prefix=traces[i].get("prefix", net.PREFIX), suffix=traces[i].get("suffix", net.SUFFIX)) for i in idx]), wd=sub, shard=400, timeout=1800)
        for i, x in zip(idx, v):
            res[i] = x
        for k in stats:
            stats[k] += st[k]
    return res, stats


def selftest(chk, traces, verdicts):
    """the binding is demonstrated on every run: accepted executions with ONE recorded fact altered must be rejected
    (a result flipped, an arrival removed = a missing observation point, a forwarded frame altered, a NETWORK_ACK removed)"""
    import copy
    ok = [t for t, v in zip(traces, verdicts) if v["clause"] == "ok"]
    muts = []

    def first(t, pred):
        return next((i for i, e in enumerate(t["ev"]) if pred(e)), None)
    for t in ok:
        if len(muts) >= 12:
            break
        routed_ack = any(e["k"] == "txdone" and e["f"]["typ"] == 193 for e in t["ev"])
        if not routed_ack:
            continue
        for what in ("flip-ret", "drop-arrive", "alter-forward", "drop-ack"):
            m = copy.deepcopy(t)
            if what == "flip-ret":
                i = first(m, lambda e: e["k"] == "ret")
                if i is None:
                    continue
                m["ev"][i]["res"] = not m["ev"][i]["res"]
            elif what == "drop-arrive":
                i = first(m, lambda e: e["k"] == "arrive")
                if i is None:
                    continue
                del m["ev"][i]
            elif what == "alter-forward":
                idx = [i for i, e in enumerate(m["ev"]) if e["k"] == "arrive" and e["f"]["typ"] != 193]
                if len(idx) < 2:
                    continue
                m["ev"][idx[1]]["f"]["id"] ^= 1
            else:
                idx = [i for i, e in enumerate(m["ev"]) if e["k"] in ("arrive", "txdone") and e["f"]["typ"] == 193 and e["n"] == next(
                    x["n"] for x in m["ev"] if x["k"] == "txdone" and x["f"]["typ"] == 193)]
                for i in reversed(idx):
                    del m["ev"][i]
            m["what"] = what
            muts.append(m)
    if not muts:
        return
    v, _ = judge(muts, "netnode_selftest")
    bad = [m["what"] for m, x in zip(muts, v) if x["clause"] == "ok"]
    if bad:
        raise tlc.TlcError("TraceNetNode accepted altered executions (%s): the monitor no longer constrains the code" % bad)
    chk.extra["netnode_selftest"] = dict(altered_executions=len(muts), rejected=len(muts),
                                         clauses=sorted({x["clause"] for x in v}))


def conform(chk, quick, prop_clauses=None):
    """run the conformance phase; violations of listed clauses are reported through chk, drift as notes"""
    jobs = jobs_for(chk.seed, quick)
    with ProcessPoolExecutor(16) as ex:
        traces = list(ex.map(scenario, jobs, chunksize=2))
    verdicts, st = judge(traces)
    chk.add_stats(st, "TraceNetNode.tla: %d executions of real nodes followed step by step by the L2 model" % len(traces))
    chk.traces += len(traces)
    nev = sum(len(t["ev"]) for t in traces)
    chk.note("NetNode conformance: %d executions, %d events (every event is a model action in the state reached)" % (len(traces), nev))
    kinds = {}
    for t in traces:
        for e in t["ev"]:
            kinds[e["k"]] = kinds.get(e["k"], 0) + 1
            if e["k"] == "arrive" and e.get("again"):
                kinds["re-arrival"] = kinds.get("re-arrival", 0) + 1
            if e["k"] == "txdone" and not e["ok"]:
                kinds["failed transmission"] = kinds.get("failed transmission", 0) + 1
            if e["k"] == "ret" and not e["res"]:
                kinds["write() False"] = kinds.get("write() False", 0) + 1
    chk.extra["netnode_events"] = kinds
    selftest(chk, traces, verdicts)
    found = {}
    for t, v in zip(traces, verdicts):
        chk.case(("netnode", str(t["meta"])))
        if v["clause"] == "ok":
            continue
        e = t["ev"][v["at"] - 1] if 0 < v["at"] <= len(t["ev"]) else {}
        if v["clause"].startswith("drift."):
            chk.note("NetNode model drift (%s: %s) in %s at event %d" % (v["clause"], v["detail"], t["meta"], v["at"]))
            chk.drift = getattr(chk, "drift", 0) + 1
            continue
        key = "%s:netnode:%s:%s" % (v["clause"], e.get("k", "?"), v["detail"])
        if key not in found or len(t["ev"]) < len(found[key][0]["ev"]):
            found[key] = (t, v, e)
    for key, (t, v, e) in found.items():
        chk.violation(v["clause"], key, dict(kind="netnode", meta=t["meta"], at=v["at"], failing_event=e,
                                             prefix=t["ev"][max(0, v["at"] - 6): v["at"]]), v["detail"])
    return traces, verdicts
