"""C17 - mesh joins yield distinct working addresses; lookups give documented codes.
Multi-node simulations of a real RF24Mesh master and 1..12 real mesh nodes: concurrent renew_address() calls with seeded
ids, start offsets and MCU jitter (level-1 slots exhausted or not), then lookups / sends by ID / check_connection /
release / re-join at quiescence; TraceMesh.tla judges every mesh API return against snapshots of the master's table and
of all node addresses, deliveries of sends by ID, exceptions in any task, and the listening state (C07).  MeshDhcp.tla
model-checks the master's allocation (distinct leases)."""
import random
import re
from concurrent.futures import ProcessPoolExecutor

from harness import tlc, net
from harness.ev import jsonable


def scenario(args):
    nj, seed, jitter, stagger_ms, loss, kindmix = args
    rng = random.Random(seed)
    ids = rng.sample(range(1, 256), nj)
    small = seed % 3 == 0 and nj <= 12
    if small:     # IDs that are numerically equal to logical addresses the mesh hands out (0o1..0o5, 0o11.., 0o21..)
        ids = rng.sample([1, 2, 3, 4, 5, 9, 10, 11, 12, 13, 17, 18, 19, 20, 21, 25, 33, 41], nj)
    nodes = [dict(addr=0, kind="master", node_id=0)]
    if loss == "deep":
        # static leases (nodes that are not switched on) leave one level-1 slot and one slot below it: three joiners then
        # end up in a chain 0o5 - 0o45 - 0o445, the last one joining through a LEVEL-2 relay
        ids = [i for i in ids if i < 200][:nj] + [i for i in range(1, 200) if i not in ids][:max(0, nj - len([i for i in ids if i < 200]))]
        nodes[0]["opts"] = dict(dhcp_dict={201: 0o1, 202: 0o2, 203: 0o3, 204: 0o4, 205: 0o15, 206: 0o25, 207: 0o35})
        loss = 0
    for i in ids:
        nodes.append(dict(addr=0o4444, kind="mesh" if (kindmix and rng.random() < 0.5) else "meshnm", node_id=i))
    fate = None
    if loss and loss != "confirm-lost":
        lr = random.Random(seed + 1)
        fate = lambda pkt: ("P" if lr.random() < loss else "D")
    faults = None
    timeout = 7.5
    if loss == "confirm-lost":      # the lease is granted but the joiner's confirmation look-ups never get through
        fate, timeout = None, 1.2
        faults = [dict(src="n%d" % (k + 1), kind="type198", fate="P") for k in range(nj)]
    ns = net.NetSim(nodes, seed=seed, jitter=jitter, spi_ns=40_000, fate_fn=fate, gap_ms=400, faults=faults)
    names = [nd["name"] for nd in nodes]
    scripts = {}
    for k, nm in enumerate(names[1:]):
        at = int(k * stagger_ms * 1_000_000) + rng.randrange(0, 2_000_000)
        scripts[nm] = [(at, lambda s_, n_, to=timeout: s_.mesh_call(n_, "join", lambda o: o.renew_address(to), timeout_ms=int(to * 1000)))]
    jobs = []
    if loss == "confirm-lost":
        tr = ns.run([], scripts=scripts)
        tr["lossy"] = True
        tr["meta"] = dict(joiners=nj, ids=ids, seed=seed, jitter=jitter, stagger_ms=stagger_ms, loss=loss,
                          joins=[[e["id"], e["res"], (e["t"] - e["t0"]) // 1000] for e in tr["mesh"] if e["op"] == "join"])
        return tr
    J = names[1:]
    idof = {nd["name"]: nd["node_id"] for nd in nodes}
    unknown_id = next(i for i in range(1, 256) if i not in ids)
    for nm in (J if nj <= 4 else rng.sample(J, 4)):
        other = rng.choice([x for x in J if x != nm] or [nm])
        jobs.append(net.job_mesh(nm, "lookup_address", lambda o, i=idof[nm]: o.lookup_address(i), arg=idof[nm]))
        jobs.append(net.job_mesh(nm, "lookup_address", lambda o, i=idof[other]: o.lookup_address(i), arg=idof[other]))
        jobs.append(net.job_mesh(nm, "lookup_address", lambda o, i=unknown_id: o.lookup_address(i), arg=unknown_id))
        jobs.append(net.job_mesh(nm, "lookup_address", lambda o: o.lookup_address(0), arg=0))
        jobs.append(net.job_mesh(nm, "lookup_node_id", lambda o: o.lookup_node_id(o.node_address), arg=-1))
        jobs.append(net.job_mesh(nm, "lookup_node_id", lambda o: o.lookup_node_id(0o5555), arg=0o5555))
        if small:
            for a in rng.sample([1, 2, 3, 4, 5], 3) + [rng.choice(ids)]:      # an address, and an ID used as if it were one
                jobs.append(net.job_mesh(nm, "lookup_node_id", lambda o, a=a: o.lookup_node_id(a), arg=a))
        jobs.append(net.job_mesh(nm, "lookup_node_id", lambda o: o.lookup_node_id(None), arg=-999))
        jobs.append(net.job_mesh(nm, "lookup_node_id", lambda o: o.lookup_node_id(0), arg=0))
        jobs.append(net.job_mesh(nm, "check_connection", lambda o: o.check_connection(), budget_ms=8000))
        jobs.append(net.job_mesh_send(nm, idof[other], rng.choice([0, 65]), bytes(rng.randrange(256) for _ in range(rng.choice([0, 5, 24]))), budget_ms=8000))
        jobs.append(net.job_mesh_send(nm, 0, 1, b"to-master", budget_ms=8000))
        jobs.append(net.job_mesh_send(nm, unknown_id, 1, b"nobody", budget_ms=8000))
    jobs.append(net.job_mesh(names[0], "lookup_address", lambda o, i=ids[0]: o.lookup_address(i), arg=ids[0]))
    jobs.append(net.job_mesh(names[0], "lookup_address", lambda o, i=unknown_id: o.lookup_address(i), arg=unknown_id))
    jobs.append(net.job_mesh(names[0], "join", lambda o: o.renew_address(1), timeout_ms=1000))
    rel = rng.choice(J)
    asker = rng.choice([x for x in J if x != rel] or [names[0]])
    if nj >= 6 and seed % 2 == 0:
        # a relay with children leaves and its orphans renew: pick, at run time, a joiner that is some node's parent
        def pick_parent(ns_):
            addrs = {nm: o.node_address for nm, o in ns_.objs.items()}
            for nm, a in addrs.items():
                if nm != names[0] and a != 0o4444 and any(b != 0o4444 and b != a and b > 7 and (b & ((1 << (3 * (len(oct(b)) - 3))) - 1)) == a
                                                         for b in addrs.values()):
                    return nm
            return J[0]

        def pick_orphan(ns_):
            addrs = {nm: o.node_address for nm, o in ns_.objs.items()}
            held = set(addrs.values())
            for nm, b in addrs.items():
                if b != 0o4444 and b > 7 and (b & ((1 << (3 * (len(oct(b)) - 3))) - 1)) not in held:
                    return nm
            return J[-1]
        jobs.append(net.job_mesh(pick_parent, "release", lambda o: o.release_address(), budget_ms=8000))
        jobs.append(net.job_mesh(pick_orphan, "join", lambda o: o.renew_address(7.5), timeout_ms=7500, budget_ms=12000))
    jobs.append(net.job_mesh(rel, "release", lambda o: o.release_address(), budget_ms=8000))
    jobs.append(net.job_mesh(rel, "check_connection", lambda o: o.check_connection(), budget_ms=8000))
    jobs.append(net.job_mesh(rel, "lookup_address", lambda o, i=idof[asker]: o.lookup_address(i), arg=idof[asker]))
    jobs.append(net.job_mesh(asker, "lookup_address", lambda o, i=idof[rel]: o.lookup_address(i), arg=idof[rel]))
    # nodes that stayed connected (some may have lost their parent with `rel`) renew too: a renewal must work from any state
    for other in [x for x in J if x != rel][:3]:
        jobs.append(net.job_mesh(other, "join", lambda o: o.renew_address(7.5), timeout_ms=7500, budget_ms=12000))
    jobs.append(net.job_mesh(rel, "join", lambda o: o.renew_address(7.5), timeout_ms=7500, budget_ms=12000))
    jobs.append(net.job_mesh_send(asker, idof[rel], 2, b"after-rejoin", budget_ms=8000))
    tr = ns.run(jobs, scripts=scripts)
    # the "-1" argument of lookup_node_id(own address) is resolved from the event itself
    for e in tr["mesh"]:
        if e["op"] == "lookup_node_id" and e["arg"] == -1:
            e["arg"] = e["addr"]
    tr["lossy"] = bool(loss)
    tr["meta"] = dict(joiners=nj, ids=ids, seed=seed, jitter=jitter, stagger_ms=stagger_ms, loss=loss,
                      joins=[[e["id"], oct(e["res"]) if e["res"] >= 0 else e["res"], (e["t"] - e["t0"]) // 1000] for e in tr["mesh"] if e["op"] == "join"])
    return tr


def build(chk):
    quick = chk.tier == "quick"
    rng = random.Random(chk.seed + 17)
    jobs = []
    sizes = [1, 2, 3, 5, 6, 8] if quick else list(range(1, 13))
    for nj in sizes:
        for rep in range(2 if quick else 8):
            stagger = rng.choice([0, 0, 50, 200])
            jobs.append((nj, chk.seed * 9973 + len(jobs), rng.choice([3000, 40000]), stagger, 0, rep % 2 == 1))
    for nj in ([2, 4] if quick else [1, 2, 4, 6]):
        for rep in range(1 if quick else 4):
            jobs.append((nj, chk.seed * 9973 + len(jobs), 3000, 50, rng.choice([0.05, 0.15]), False))
    for nj in (1, 2):
        jobs.append((nj, chk.seed * 9973 + len(jobs), 3000, 100, "confirm-lost", False))
    for rep in range(1 if quick else 3):
        jobs.append((3, chk.seed * 9973 + len(jobs), rng.choice([3000, 40000]), 2500, "deep", rep % 2 == 1))
    return jobs


def run(chk):
    chk.rule = ("scenarios: a master and 1..12 mesh nodes (RF24Mesh / RF24MeshNoMaster mix) with seeded distinct ids, all "
                "calling renew_address() at seeded offsets (simultaneous / 50 ms / 200 ms stagger; more than 5 joiners force "
                "joins through relays), then per node lookups of own / other / unknown / 0 / None, check_connection, send by "
                "ID (other node, master, unknown id), release, lookups after release, re-join, send after re-join; plus "
                "lossy scenarios (5-15 % packet loss) where only no-exception / termination / valid-or-None are claimed; "
                "distinct = scenarios")
    r = tlc.mc("MeshDhcp", "MeshDhcp", timeout=900)
    chk.add_tlc(r, "master's allocation: distinct leases (MeshDhcp)")
    rj = tlc.mc("MeshJoin", "MeshJoin", timeout=900)
    chk.add_tlc(rj, "join protocol (poll / request / response / confirmation, free interleaving, bounded latency): distinct "
                    "addresses, table agreement")
    ru = tlc.run("MeshJoin", "MeshJoin_unbounded", timeout=900)
    chk.extra["join_protocol_with_unbounded_latency"] = ("violates " + str(ru.get("violated"))) if not ru["ok"] else "holds"
    jobs = build(chk)
    with ProcessPoolExecutor(16) as ex:
        traces = list(ex.map(scenario, jobs))
    chk.phase("simulate")
    for t in traces:
        chk.case(str({k: v for k, v in t["meta"].items() if k != "joins"}))
    chk.traces += len(traces)
    chk.extra["joins"] = sum(len(t["meta"]["joins"]) for t in traces)
    chk.extra["slowest_join_ms"] = max([j[2] for t in traces for j in t["meta"]["joins"]] or [0])
    chk.sample(dict(meta=traces[3]["meta"], first_event={k: v for k, v in traces[3]["mesh"][0].items()}))
    verdicts, st = tlc.validate("TraceMesh", "TraceMesh", jsonable([{k: v for k, v in t.items() if k != "meta"} for t in traces]),
                                shard=3, timeout=2400, multi=True, quiet=True)
    chk.add_stats(st, "mesh events and send windows judged")
    chk.phase("judge")
    found = {}
    for t, vs in zip(traces, verdicts):
        for v in vs:
            key = "%s:%s%s" % (v["clause"], "lossy:" if t["lossy"] else "", re.sub(r"\d+", "N", v["detail"]))
            found.setdefault(key, []).append((t["meta"], v))
    for key, items in found.items():
        m, v = items[0]
        chk.violation(v["clause"], key, dict(kind="mesh", meta=m, count=len(items), at=v["at"]), "%s [%d event(s)]" % (v["detail"], len(items)))
    chk.assumptions += ["loss-free medium unless the scenario is marked lossy", "renew_address() timeout 7.5 s (default); 400 ms slack on the deadline for the last lookup in flight"]
