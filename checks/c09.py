"""C09 - `with` restores an object's complete radio configuration.
Rf24Ctx.tla: abstract cache/establish model checked by TLC; binding: every interleaving of <= 4 blocks of 2-3 objects
of every class mix (RF24, FakeBLE, RF24Network, RF24Mesh) sharing one chip, each block running a seeded configuration
history; enter/exit observations on the true register file judged by TraceRf24Ctx.tla."""
import itertools
import random
from concurrent.futures import ProcessPoolExecutor

from harness import tlc, sim, rfapi
from harness.ev import jsonable

BLE_OPS = {"channel=": [2, 26, 80, 50], "pa_level=": [0, -6, -12, -18, (0, False)], "payload_length=": [32, 20, 8],
           "set_payload_length": [(24, 0), (10, 3)], "interrupt_config": rfapi.OPS["interrupt_config"],
           "arc=": [0, 3], "ard=": [250, 1000], "power=": [True, False], "listen=": [True, False],
           "auto_ack=": [True], "dynamic_payloads=": [True], "crc=": [2], "data_rate=": [2], "address_length=": [5],
           "open_rx_pipe": [(1, b"AAAAA")], "open_tx_pipe": [b"AAAAA"], "ack=": [True],
           # calls FakeBLE inherits but refuses (its setters raise NotImplementedError): nothing may stick in the cached view
           "set_auto_ack": [(True, 0), (True, 3)], "set_dynamic_payloads": [(True, 1), (True, None)], "load_ack": [(3, 1)],
           "set_auto_retries": [(1000, 5)]}
NET_OPS = {"channel=": [0, 76, 90, 125], "pa_level=": [0, -6, -12, -18, (0, False), (-12, True)], "data_rate=": [1, 2, 250],
           "crc=": [0, 1, 2], "power=": [True, False], "set_auto_retries": rfapi.OPS["set_auto_retries"],
           "interrupt_config": rfapi.OPS["interrupt_config"], "set_dynamic_payloads": [(True, None), (False, 2), (True, 2)],
           "listen=": [True, False]}
CLASSES = ["rf24", "ble", "net", "mesh"]


def make(kind, chip, rng):
    spi, ce = sim.FakeSpiDev(chip), sim.Pin(chip)
    if kind == "rf24":
        from circuitpython_nrf24l01.rf24 import RF24
        return RF24(spi, 0, ce)
    if kind == "ble":
        from circuitpython_nrf24l01.fake_ble import FakeBLE
        return FakeBLE(spi, 0, ce)
    if kind == "net":
        from circuitpython_nrf24l01.rf24_network import RF24Network
        return RF24Network(spi, 0, ce, rng.choice([0, 0o1, 0o23, 0o4321]))
    from circuitpython_nrf24l01.rf24_mesh import RF24Mesh
    return RF24Mesh(spi, 0, ce, rng.choice([0, 7, 200]))


def block_calls(kind, rng, n):
    ops = rfapi.OPS if kind == "rf24" else BLE_OPS if kind == "ble" else NET_OPS
    out = []
    for _ in range(n):
        x = rng.random()
        if kind == "ble" and x < 0.25:
            out.append(("hop_channel", None))
        elif kind == "ble" and x < 0.35:
            out.append(("name=", rng.choice([None, b"nRF", "x" * 8])))
        elif kind == "ble" and x < 0.45:
            out.append(("show_pa_level=", rng.choice([True, False])))
        elif kind in ("net", "mesh") and x < 0.12:
            out.append(("multicast_level=", rng.choice([0, 1, 2, 4])))
        elif kind == "net" and x < 0.24:
            out.append(("node_address=", rng.choice([0o2, 0o15, 0o123])))
        else:
            op = rng.choice(sorted(ops))
            out.append((op, rng.choice(ops[op])))
    return out


def call(obj, op, a):
    try:
        if op == "hop_channel":
            obj.hop_channel()
        elif op in ("name=", "show_pa_level=", "multicast_level=", "node_address="):
            setattr(obj, op[:-1], a)
        else:
            rfapi.invoke(obj, op, a)
    except Exception:  # noqa  (rejections are C03's business; here only what the block establishes matters)
        pass


def scenario(args):
    kinds, order, seed = args[:3]
    fixed = args[3] if len(args) > 3 else None      # fixed call list for the first block (structured family)
    rng = random.Random(seed)
    s = sim.Sched()
    air = sim.Air(s)
    sim.install(s)
    chip = sim.Chip(air, "c")
    ev, script = [], []
    objs = []
    for i, k in enumerate(kinds):
        objs.append(make(k, chip, rng))
        ev.append(dict(k="ctor", o=i + 1, post=rfapi.state(chip)))
    for o in order:
        obj, kind = objs[o], kinds[o]
        exc = "none"
        try:
            obj.__enter__()
        except Exception as e:  # noqa  (a cached value that cannot be restored at all)
            exc = type(e).__name__
        ev.append(dict(k="enter", o=o + 1, post=rfapi.state(chip), exc=exc))
        calls = block_calls(kind, rng, rng.randrange(0, 7))
        if fixed is not None and not script:
            calls = list(fixed)
        for (op, a) in calls:
            call(obj, op, a)
        script.append([o, [[op, rfapi.arg_repr(a)] for op, a in calls]])
        pre = rfapi.state(chip)
        obj.__exit__(None, None, None)
        ev.append(dict(k="exit", o=o + 1, pre=pre, post=rfapi.state(chip)))
    return dict(kinds=list(kinds), script=script, ev=ev)


def run(chk):
    quick = chk.tier == "quick"
    chk.rule = ("class mixes of 2 and 3 objects (4^2 + 4^3) x every interleaving of 1..4 blocks x seeded per-block call "
                "histories (0..6 calls of the class's configuration alphabet); enter/exit images judged by TraceRf24Ctx.tla; "
                "distinct = (mix, interleaving, seed)")
    r = tlc.mc("Rf24Ctx", timeout=900)
    chk.add_tlc(r, "abstract cache/establish model")
    jobs = []
    reps = 1 if quick else 6
    for k in (2, 3):
        for kinds in itertools.product(CLASSES, repeat=k):
            for nb in range(1, 5):
                for order in itertools.product(range(k), repeat=nb):
                    for rep in range(reps):
                        jobs.append((kinds, order, hash((chk.seed, kinds, order, rep)) & 0x7FFFFFFF))
    # structured family: the first block of an RF24 runs every pipe / listen / address-length history of length <= 3
    # (the calls whose cached view is easiest to get wrong), another object intervenes, the RF24 is re-entered
    from checks.c08 import ALPHA as PIPE_ALPHA
    structured = []
    for d in (1, 2, 3):
        for seq in itertools.product(PIPE_ALPHA, repeat=d):
            structured.append((("rf24", ("ble", "net", "rf24")[len(structured) % 3]), (0, 1, 0), len(structured), list(seq)))
    if quick:
        rng = random.Random(chk.seed)
        keep = [j for j in jobs if len(j[1]) <= 3] + rng.sample([j for j in jobs if len(j[1]) == 4], 1500)
        jobs = keep
    jobs = jobs + structured
    with ProcessPoolExecutor(16) as ex:
        traces = list(ex.map(scenario, jobs, chunksize=64))
    for j in jobs:
        chk.case(str(j))
    chk.traces += len(traces)
    chk.phase("exec")
    chk.sample(dict(kinds=traces[len(traces) // 2]["kinds"], script=traces[len(traces) // 2]["script"]))
    verdicts, st = tlc.validate("TraceRf24Ctx", "TraceRf24Ctx", jsonable([dict(ev=t["ev"], kinds=t["kinds"]) for t in traces]), shard=2000,
                                timeout=1800)
    chk.add_stats(st, "enter/exit observations")
    chk.phase("judge")
    found = {}
    for t, v in zip(traces, verdicts):
        if v["clause"] != "ok":
            e = t["ev"][v["at"] - 1]
            kind = t["kinds"][e["o"] - 1]
            key = "%s:%s:%s" % (v["clause"], kind, v["detail"])
            nblocks = sum(1 for x in t["ev"][: v["at"]] if x["k"] == "enter")
            if key not in found or nblocks < found[key][0]:
                found[key] = (nblocks, t, v)
    for key, (nb, t, v) in found.items():
        chk.violation(v["clause"], key, dict(kind="ctx", kinds=t["kinds"], script=t["script"], at=v["at"]), v["detail"])
    chk.exhaustive = False
    chk.assumptions += ["each object is used only inside its own with-block (constructors excepted)",
                        "what an object 'established' = register image at the end of its block / at constructor return, "
                        "PWR_UP and CE excluded"]
