"""Keeping the radio double honest: every edge of the Nrf24Chip.tla state graph (one PTX, one PRX, Enhanced ShockBurst
at SPI-command level with a free fate per attempt) is replayed on two SimChip objects of harness/sim.py and all FIFOs,
flags and counters are compared after every step.  A disagreement is a machinery failure (exit 2), never a verdict
about the repository."""
from harness import tlc, sim
from harness.tourlib import Graph

ADDR = b"\xA1\xA2\xA3\xA4\xA5"
FATE = {"lost": "P", "acklost": "A", "acked": "D"}


class Pair:
    def __init__(self, arc):
        self.s = sim.Sched()
        self.air = sim.Air(self.s)
        self.t = sim.Chip(self.air, "t")
        self.r = sim.Chip(self.air, "r")
        w = lambda c, reg, *v: c.xfer(bytes([0x20 | reg]) + bytes(v))
        for c in (self.t, self.r):
            w(c, 0x01, 0x3F)
            w(c, 0x03, 0x03)
            w(c, 0x05, 40)
            w(c, 0x1D, 0x07)
            w(c, 0x1C, 0x3F)
            w(c, 0x04, 0x10 | arc)
            w(c, 0x07, 0x70)
        w(self.t, 0x0A, *ADDR)
        w(self.t, 0x10, *ADDR)
        w(self.t, 0x02, 0x01)
        w(self.t, 0x00, 0x0E)           # PWR_UP, PRIM_TX
        w(self.r, 0x0B, *ADDR)
        w(self.r, 0x02, 0x02)
        w(self.r, 0x00, 0x0F)           # PWR_UP, PRIM_RX
        self.r.set_ce(True)
        self.s.advance(500_000)

    def settle(self):
        self.s.advance(200_000)

    def attempt(self, fate):
        """let exactly one more packet of the running cycle go on air with the given fate, then its consequence"""
        s, air = self.s, self.air
        air.fates = [FATE[fate]]
        n0 = len(air.log)
        guard = 0
        while len(air.log) == n0:
            if not s.ev:
                raise RuntimeError("model takes an Attempt but the double has nothing scheduled")
            s.boot_t = max(s.boot_t, s.ev[0][0])
            s.run_until(s.boot_t)
            guard += 1
            if guard > 50:
                raise RuntimeError("no packet appeared")
        # consequence of this attempt: tx_done or ack_timeout (not the next transmission's end)
        while s.ev and s.ev[0][2].__name__ in ("tx_done", "ack_timeout"):
            s.boot_t = max(s.boot_t, s.ev[0][0])
            tt, _, fn, a = s.ev[0]
            s.run_until(tt)
        air.fates = []

    def apply(self, name, a):
        t, r = self.t, self.r
        if name == "WTx":
            d, na = a
            t.xfer(bytes([0xB0 if na else 0xA0, d]))
        elif name == "TCe":
            t.set_ce(a[0])
        elif name == "RCe":
            r.set_ce(a[0])
            if r.rx_since is not None:
                r.rx_since = 0          # RX settling time is not modelled: time only passes in Attempt steps
        elif name == "TClear":
            t.xfer(bytes([0x27, (0x40 if a[0] else 0) | (0x20 if a[1] else 0) | (0x10 if a[2] else 0)]))
        elif name == "TFlushTx":
            t.xfer(b"\xE1")
        elif name == "RFlushTx":
            r.xfer(b"\xE1")
        elif name == "TRead":
            t.xfer(b"\x61\x00")
        elif name == "RRead":
            r.xfer(b"\x61\x00")
        elif name == "RAck":
            r.xfer(bytes([0xA9, a[0]]))
        elif name == "Attempt":
            self.attempt(a[0])
        else:
            raise KeyError(name)

    def proj(self):
        t, r = self.t, self.r
        return dict(
            tTx=[dict(d=e["data"][0], pid=e["pid"], noack=e["noack"]) for e in t.tx if e["kind"] == "tx"],
            tRx=[dict(pipe=p, d=d[0]) for (p, d) in t.rx], tDr=bool(t.r[7] & 0x40), tDs=bool(t.r[7] & 0x20), tDf=bool(t.r[7] & 0x10),
            tCe=t.ce, busy=t.busy, arcCnt=t.arc_cnt, plos=t.plos, pid=t.pid,
            rTx=[dict(pipe=e["pipe"], d=e["data"][0]) for e in r.tx if e["kind"] == "ack"],
            rRx=[dict(pipe=p, d=d[0]) for (p, d) in r.rx], rDr=bool(r.r[7] & 0x40), rDs=bool(r.r[7] & 0x20), rCe=r.ce,
            pend=1 in r.pending_ack)


def conformance(chk, cfg="Nrf24Chip"):
    g = Graph.load("Nrf24Chip", cfg, timeout=1200)
    chk.add_tlc(g.result, "Nrf24Chip.tla (ESB at SPI-command level): invariants + graph export for double conformance")
    paths = g.tour()
    arc = 1
    steps = 0
    for p in paths:
        pr = Pair(arc)
        for (a, l, b) in p:
            name, args = g.label(l)
            pr.apply(name, args)
            got = pr.proj()
            want = g.nodes[b]
            diff = {k: (want[k], got[k]) for k in got if want[k] != got[k]}
            steps += 1
            if diff:
                raise tlc.TlcError("radio double disagrees with Nrf24Chip.tla after %s: %s (path %s)" % (
                    l, diff, [x[1] for x in p[: p.index((a, l, b)) + 1]]))
    chk.extra["double_conformance"] = dict(spec_edges=len(g.edges), paths=len(paths), steps_compared=steps)
    return steps
