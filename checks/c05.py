"""C05 - a network message reaches its destination exactly once, intact, over any tree.
Network.tla / TraceNet.tla judge job windows of multi-node simulations of the real RF24Network nodes (threads under
the deterministic scheduler, seeded MCU jitter, loss-free medium, first-packet capture at each receiver): for every (source, destination)
pair of seeded parent-closed topologies and message length class one write() is made at quiescence; delivery exactly
once / no bystander / return value / frame size are decided per window, the listening state (C07) at every return."""
import random
import re
from concurrent.futures import ProcessPoolExecutor

from harness import tlc, net
from harness.ev import jsonable

NET_ACK = 193


def topology(rng, nmax):
    """parent-closed set of addresses up to depth 4"""
    addrs = {0}
    frontier = [0]
    while len(addrs) < nmax:
        p = rng.choice(sorted(addrs))
        lvl = len(oct(p)) - 2 if p else 0
        if lvl >= 4:
            continue
        c = p | (rng.randrange(1, 6) << (3 * lvl))
        addrs.add(c)
    # make sure depth 3..4 is present
    deep = max(addrs, key=lambda a: a)
    return sorted(addrs)


def hops(s, d):
    def lvl(a):
        return 0 if a == 0 else len(oct(a)) - 2
    n = 0
    while s != d:
        if lvl(d) > lvl(s) and (d & ((1 << (3 * lvl(s))) - 1)) == s:
            s = d & ((1 << (3 * (lvl(s) + 1))) - 1)
        else:
            s = s & ((1 << (3 * (lvl(s) - 1))) - 1) if lvl(s) > 1 else 0
        n += 1
    return n


def run_chunk(args):
    addrs, kinds, jobs, seed, jitter, frag = args
    # every other chunk runs its full nodes with ret_sys_msg on (as every mesh node does): user messages and their fragments
    # are still queued / re-assembled, only other system types are reported instead
    retsys = {"ret_sys_msg": True} if (seed * 2654435761 >> 11) & 1 else {}
    # every fourth chunk runs the whole network with allow_multicast off (each node then relays through the other of its two
    # "pass it along" branches and listens on a private pipe-0 address)
    mc_off = (seed * 2654435761 >> 17) % 4 == 0
    mco = {"allow_multicast": False} if mc_off else {}
    nodes = [dict(addr=a, kind=kinds[a], opts=dict(retsys, **mco, **({} if frag else {"fragmentation": False})), reassign=mc_off)
             for a in addrs]
    # some chunks run in a private address space (prefix / suffix changed after construction, node_address re-assigned)
    priv = dict(prefix=0x5D, suffix=[0x1E, 0x2D, 0x4B, 0x87, 0x78, 0xB4]) if (seed * 2654435761 >> 13) % 3 == 0 else {}
    ns = net.NetSim(nodes, seed=seed, jitter=jitter, **priv)
    name = {nd["addr"]: nd["name"] for nd in nodes}
    js = []
    for (s, d, t, n) in jobs:
        msg = bytes(((i * 7 + n + s) & 0xFF) for i in range(n))
        js.append(net.job_write(name[s], d, t, msg, chk=["C05", "C07"]))
    tr = ns.run(js)
    tr["meta"] = dict(addrs=[oct(a) for a in addrs], kinds={oct(a): k for a, k in kinds.items()}, seed=seed, jitter=jitter,
                      frag=frag, ret_sys_msg=bool(retsys), private_addresses=bool(priv), allow_multicast=not mc_off,
                      jobs=[[oct(s), oct(d), t, n] for (s, d, t, n) in jobs])
    return tr


def scenario_busy(args):
    """a busy application: node A is handed a message (its radio acknowledges it, B's write() returns True) while A's
    application is doing something else; before it polls again A sends a message of its own - single-frame or fragmented.
    What waits in A's radio must survive A's own transmission."""
    n_own, seed, jitter = args
    nodes = [dict(addr=a, kind="net") for a in (0, 0o1, 0o2)]
    ns = net.NetSim(nodes, seed=seed, jitter=jitter)
    name = {nd["addr"]: nd["name"] for nd in nodes}
    jb = net.job_write(name[0o1], 0, 0, b"for the busy node", chk=["C05b"], jid=1, budget_ms=6000)

    def busy(ns_, nm):
        ns_.s.advance(50_000_000)                      # the application is busy for 50 ms (no update())
        o = ns_.objs[nm]
        o.send(ns_.structs.RF24NetworkHeader(0o2, 1), bytes((i * 3 + n_own) & 0xFF for i in range(n_own)))
    scripts = {name[0]: [(1_000_000_000, busy)], name[0o1]: [(1_010_000_000, lambda ns_, nm: jb["fn"](ns_, nm, jb))]}
    tr = ns.run([], scripts=scripts)
    tr["meta"] = dict(addrs=["0o0", "0o1", "0o2"], kinds={}, seed=seed, jitter=jitter, frag=True, ret_sys_msg=False,
                      private_addresses=False, jobs=[["0o1", "0o0", 0, 17]], busy_own_len=n_own)
    return tr


def classify(w, clause):
    """coarse cause class of a lost / unconfirmed message (used for the known-finding key only)"""
    c = w["call"]
    n, h = len(c["msg"]), hops(c["src"], c["to"])
    if clause not in ("C05.Delivered", "C05.ReturnTrue") or n <= 24 or h < 2:
        return "%s:len%s:hops%d" % (clause, ">24" if n > 24 else "<=24", h)
    # the fragment / NETWORK_ACK stand-off: a frame of this message (a fragment, or a NETWORK_ACK answering one of its
    # fragments) was never ACKed at radio level while frames of the other kind were on air
    loads = {}
    for p in w["pkts"]:
        if len(p["data"]) >= 8 and p["data"][6] in (148, 149, 150, NET_ACK):
            loads.setdefault((p["src"], p["load"]), []).append(p)
    standoff = False
    for (src, _), ps in loads.items():
        if not any(p["acked"] for p in ps):
            mine = ps[0]["data"][6]
            t0, t1 = ps[0]["t"] - 60000, ps[-1]["t"] + 1000
            other = [q for q in w["pkts"] if len(q["data"]) >= 8 and q["src"] != src and t0 <= q["t"] <= t1 and
                     ((q["data"][6] == NET_ACK) if mine != NET_ACK else (q["data"][6] in (148, 149, 150)))]
            if other:
                # the stand-off class is about frames that were given up after their FULL budget (first transmission plus
                # tx_timeout rounds of re-sending: three for a fragment at its origin, one for a forwarded frame or a
                # NETWORK_ACK); a frame abandoned sooner is something else and is reported on its own
                rounds = 3 if (src == c["n"] and mine != NET_ACK) else 1
                if ps[-1]["t"] - ps[0]["t"] < rounds * c.get("tx_timeout", 25) * 1000 * 0.9:
                    return "%s:fragmented:routed:frame-abandoned-before-its-retry-budget" % clause
                standoff = True
    if standoff:
        return "%s:fragmented:routed:frame-dropped-during-fragment/NETWORK_ACK-standoff" % clause
    return "%s:fragmented:routed:other" % clause


def build(chk):
    quick = chk.tier == "quick"
    rng = random.Random(chk.seed + 5)
    chunks = []
    ntop = 3 if quick else 10
    for ti in range(ntop):
        addrs = topology(rng, rng.randrange(6, 11 if quick else 15))
        if ti == 0:
            addrs = [0, 0o1, 0o2, 0o11, 0o21, 0o111, 0o1111]          # a 5-level chain plus branches
        lens_full = [0, 1, 23, 24, 25, 47, 48, 49, 72, 143, 144]
        kinds = {}
        for a in addrs:
            kinds[a] = "net"
        # routing-only nodes on some interior positions (they can never be endpoints)
        interior = [a for a in addrs if any(b != a and hops(a, b) == 1 and b > a for b in addrs) and a != 0]
        for a in interior:
            if rng.random() < 0.3:
                kinds[a] = "routing"
        ends = [a for a in addrs if kinds[a] == "net"]
        pairs = [(s, d) for s in ends for d in ends if s != d]
        jobs = []
        for (s, d) in pairs:
            ls = rng.sample(lens_full, 3) if quick else lens_full
            for n in ls:
                jobs.append((s, d, rng.choice([0, 1, 64, 65, 127, rng.randrange(128)]), n))
        if ti == 0 and not quick:
            s, d = 0o1111, 0o2
            jobs += [(s, d, 65, n) for n in range(0, 145)]                     # every length on one long path
        rng.shuffle(jobs)
        per = 12
        for k in range(0, len(jobs), per):
            chunks.append((addrs, kinds, jobs[k:k + per], chk.seed * 1000 + ti * 100 + k, rng.choice([3000, 40000]), True))
        # fragmentation disabled: 0..24 bytes
        jf = [(s, d, rng.choice([0, 65, 127]), n) for (s, d) in rng.sample(pairs, min(len(pairs), 12 if quick else 40))
              for n in rng.sample(range(0, 25), 2 if quick else 6)]
        for k in range(0, len(jf), per):
            chunks.append((addrs, kinds, jf[k:k + per], chk.seed * 1000 + ti * 100 + 50 + k, 3000, False))
    return chunks


def dispatch_vectors(args):
    """one node of every role and level meets single frames of every destination class (checks/c15.py's injector)"""
    from checks import c15
    role, level, seed, types, lens = args
    return [v for v in c15.work((role, level, seed, types, lens, [])) if v["k"] == "inj"]


def write_vectors(args):
    """origin side: write(frame, traffic_direct) of single-frame messages at a network node of every level"""
    from checks import c15
    from harness import sim
    level, seed = args
    rng = random.Random(seed)
    nd = c15.Node("net", level, seed)
    o, chip, s = nd.o, nd.chip, nd.s
    st = __import__("circuitpython_nrf24l01.network.structs", fromlist=["x"])
    me = nd.addr
    dests = {k: v for k, v in c15.dest_classes(me, level).items() if k in ("self", "child", "descendant", "parent-side")}
    dests["master"] = 0
    if level:
        dests["parent"] = me & ((1 << (3 * (level - 1))) - 1)
    out = []
    for cls, to in sorted(dests.items()):
        if to == me and cls != "self":
            continue
        directs = [56, to] + ([dests["child"]] if "child" in dests else []) + ([dests["parent"]] if "parent" in dests else [])
        for direct in sorted(set(directs)):
            if direct == me:
                continue
            for typ in (0, 65, 127, 128, 191, 192, 255):
                n = rng.choice([0, 5, 24])
                msg = bytes(rng.randrange(256) for _ in range(n))
                h = st.RF24NetworkHeader(to, typ)
                cfg = dict(addr=o.node_address, lvl=o.multicast_level, role="net", allowMc=bool(o.allow_multicast),
                           relay=bool(o.multicast_relay), retSys=bool(o.ret_sys_msg), parent=True, dhcp=[])
                nd.air.log.clear()
                q0 = len(o.queue)
                t0 = s.now
                s.deadline = t0 + 3_000_000_000
                exc, ret = "none", False
                try:
                    ret = o.write(st.RF24NetworkFrame(h, msg), direct)
                except sim.WatchdogExpired:
                    exc = "Hang"
                except Exception as e:  # noqa
                    exc = type(e).__name__
                s.deadline = None
                dt = (s.now - t0) // 1000
                sent = [dict(phys=list(p["addr"]), data=list(p["data"]), noack=not p["want_ack"]) for p in nd.air.log]
                out.append(dict(k="write", cfg=cfg, to=to, id=h.frame_id, type=typ, msg=list(msg), direct=direct, exc=exc, ret=bool(ret),
                                queued=len(o.queue) - q0, sent=sent, waited=bool(dt >= 2500), dt=int(dt), level=level, cls=cls,
                                prefix=0xCC, suffix=[0xC3, 0x3C, 0x33, 0xCE, 0x3E, 0xE3]))
                while o.available():
                    o.read()
    return out


def dispatch_phase(chk):
    """single-frame dispatch conformance: NetDispatch!Outcome (TLA+) vs what a real node of every role / level does with one
    received frame: queued or not, forwarded where and how, NETWORK_ACK owed or not, relayed or not"""
    from checks import c15
    quick = chk.tier == "quick"
    types = [0, 1, 64, 65, 100, 127, 128, 129, 130, 131, 191, 192, 193, 194, 195, 196, 197, 198, 255] if quick else list(range(256))
    lens = [0, 24] if quick else [0, 1, 23, 24]
    jobs = [(role, level, chk.seed * 53 + i, types, lens) for i, (role, level) in enumerate(
        (r, l) for r in c15.ROLES for l in range(5) if not (r == "master" and l))]
    with ProcessPoolExecutor(16) as ex:
        vec = [v for res in ex.map(dispatch_vectors, jobs) for v in res]
    for v in vec:
        v["sent"] = v.pop("sent_full")
        chk.case(("dispatch", v["role"], v["level"], tuple(v["raw"][:8]), len(v["raw"]), v["cfg"]["relay"]))
    with ProcessPoolExecutor(16) as ex:
        wv = [v for res in ex.map(write_vectors, [(lvl, chk.seed * 59 + lvl) for lvl in range(5)]) for v in res]
    for v in wv:
        v["role"], v["raw"] = "net", [0, 0, v["to"] & 255, v["to"] >> 8, 0, 0, v["type"], 0]
        chk.case(("write", v["level"], v["cls"], v["direct"], v["type"]))
    chk.extra["write_vectors"] = len(wv)
    vec += wv
    chk.traces += len(vec)
    verdicts, st = tlc.validate("TraceDispatch", "TraceDispatch", jsonable(vec), shard=2000, quiet=True, timeout=2400)
    chk.add_stats(st, "single-frame dispatch vectors judged against NetDispatch!Outcome")
    chk.phase("dispatch")
    seen, drift = {}, {}
    for v, vd in zip(vec, verdicts):
        if vd["clause"] == "ok":
            continue
        typ = v["raw"][6] if len(v["raw"]) > 6 else -1
        key = "%s:dispatch:%s:level%d:type%s:%s" % (vd["clause"], v["role"], v["level"], typ if typ > 127 else "user", re.sub(r"\d+", "N", vd["detail"]))
        (drift if vd["clause"] == "drift" else seen).setdefault(key, (v, vd))
    for key, (v, vd) in seen.items():
        chk.violation(vd["clause"], key, dict(kind="dispatch", vector={k: x for k, x in v.items()}), vd["detail"])
    chk.extra["dispatch_vectors"] = len(vec)
    chk.extra["dispatch_model_drift"] = sorted(drift)[:40]
    for key in sorted(drift)[:10]:
        chk.note("model drift (system traffic, not a listed clause): " + key)


def run(chk):
    chk.rule = ("seeded parent-closed topologies up to depth 4 (6-14 nodes, some interior nodes routing-only), every ordered "
                "pair of full nodes x message lengths from {0,1,23,24,25,47,48,49,72,143,144} (thorough: all; plus every "
                "length 0..144 on one 5-hop path), user types 0..127, fragmentation off with 0..24 bytes; each write() made "
                "at quiescence on a loss-free medium with seeded MCU jitter (3 us or 40 us per transaction); distinct = "
                "(topology, source, destination, type, length) jobs")
    r = tlc.mc("NetAddrWalk", "NetAddrWalk_quick", timeout=900)
    chk.add_tlc(r, "routes on the specification (NetAddr)")
    r = tlc.mc("NetFrameMC", timeout=600)
    chk.add_tlc(r, "fragmentation / reassembly on the specification (NetFrame)")
    # design-level account of the open finding (NetStandoff.tla): streaming fragments + per-fragment NETWORK_ACKs admit a
    # silent loss on >= 3 hops; the TMRh20 discipline (wait for the NETWORK_ACK of each fragment) admits no dropped frame
    rs = tlc.run("NetStandoff", "NetStandoff_stream", timeout=300)
    rw = tlc.mc("NetStandoff", "NetStandoff_wait", timeout=300)
    r3 = tlc.mc("NetStandoff", "NetStandoff_stream3", timeout=300)
    chk.add_tlc(rw, "NetStandoff, origin waits per fragment (TMRh20): no frame is ever dropped")
    chk.add_tlc(r3, "NetStandoff, streaming origin, 2 hops: no SILENT loss (the origin's own fragment fails, write() returns False)")
    if rs["ok"] or rs.get("violated") != "C05_NoSilentLoss":
        raise tlc.TlcError("NetStandoff (stream mode) no longer exhibits the stand-off counterexample: the design account of "
                           "the open C05 finding is out of date\n" + rs["stdout"][-1500:])
    chk.extra["standoff_counterexample_from_design"] = [a.split(" line")[0] for a, _ in rs.get("cex", [])]
    rdw = tlc.mc("NetDispatchWalk", "NetDispatchWalk" if chk.tier == "quick" else "NetDispatchWalk_all", timeout=3000)
    chk.add_tlc(rdw, "NetDispatch composed hop by hop over every ordered pair of nodes: queued exactly once at the destination, "
                     "unchanged, no bystander, one NETWORK_ACK iff owed, <= 16 transmissions")
    # the L2 node algorithm followed step by step on real nodes (TraceNetNode.tla; the model itself is checked in C13)
    from checks import netnode
    if chk.tier != "quick":
        chk.add_tlc(tlc.mc("NetNode", "NetNode_c05", timeout=1800), "NetNode.tla, loss-free sequential writes: delivered exactly once, True")
    netnode.conform(chk, chk.tier == "quick")
    chunks = build(chk)
    with ProcessPoolExecutor(16) as ex:
        traces = list(ex.map(run_chunk, chunks))
        traces += list(ex.map(scenario_busy, [(n_, chk.seed * 311 + i, 3000) for i, n_ in enumerate((5, 24, 25, 60, 144))]))
    chk.phase("simulate")
    nj = 0
    for t in traces:
        for j in t["meta"]["jobs"]:
            chk.case((tuple(t["meta"]["addrs"]), tuple(j)))
            nj += 1
    chk.traces += len(traces)
    chk.extra["messages"] = nj
    w0 = traces[0]["wins"][0]
    chk.sample(dict(topology=traces[0]["meta"]["addrs"], call={k: v for k, v in w0["call"].items()}, ret=w0["ret"],
                    deqs=w0["deqs"], packets=len(w0["pkts"])))
    verdicts, st = tlc.validate("TraceNet", "TraceNet", jsonable([{k: v for k, v in t.items() if k != "meta"} for t in traces]),
                                shard=4, timeout=2400, multi=True, quiet=True)
    chk.add_stats(st, "job windows judged")
    chk.phase("judge")
    found = {}
    for t, vs in zip(traces, verdicts):
        for v in vs:
            w = t["wins"][v["at"] - 1]
            key = classify(w, v["clause"]) if v["clause"].startswith("C05") else "%s:%s" % (v["clause"], v["detail"])
            c = w["call"]
            wit = dict(kind="net", meta={k: t["meta"][k] for k in ("addrs", "kinds", "seed", "jitter", "frag", "ret_sys_msg")},
                       job=[oct(c["src"]), oct(c["to"]), c["type"], len(c["msg"])], ret=w["ret"], ndeq=len(w["deqs"]))
            found.setdefault(key, []).append((wit, v))
    for key, items in found.items():
        wit, v = items[0]
        wit["count"] = len(items)
        chk.violation(v["clause"], key, wit, "%s [%d window(s)]" % (v["detail"], len(items)))
    dispatch_phase(chk)
    chk.assumptions += ["loss-free medium; a receiver locked onto one packet misses packets addressed to it that start meanwhile; a transmitting radio hears nothing",
                        "quiescence: every node idle, every radio in RX, air silent for 300 ms before the next write()"]
