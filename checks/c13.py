"""C13 - NETWORK_ACK: awaited only when needed, sent once, believed only if received.
TraceNet.tla (C13 clauses) judges single-frame unicast writes on routes of 1..8 hops in multi-node simulations of the
real nodes, for all relevant message types and for every choice of one failing hop transmission or one failing
NETWORK_ACK relay (fault rules on the simulated air), with tx_timeout / route_timeout varied."""
import random
import re
from concurrent.futures import ProcessPoolExecutor

from harness import tlc, net
from harness.ev import jsonable
from checks.c05 import hops

CHAIN = [0, 0o1, 0o11, 0o111, 0o1111, 0o2, 0o22, 0o222, 0o2222, 0o3, 0o13]
CONSUMED = {128, 130, 131, 148, 149, 150, 193, 194, 195}


def route(s, d):
    def lvl(a):
        return 0 if a == 0 else len(oct(a)) - 2
    out = [s]
    while s != d:
        if lvl(d) > lvl(s) and (d & ((1 << (3 * lvl(s))) - 1)) == s:
            s = d & ((1 << (3 * (lvl(s) + 1))) - 1)
        else:
            s = s & ((1 << (3 * (lvl(s) - 1))) - 1) if lvl(s) > 1 else 0
        out.append(s)
    return out


def scenario(args):
    s, d, typ, n, fault, tt, rt, seed, jitter = args
    nodes = [dict(addr=a, kind="net", opts=dict(tx_timeout=tt, route_timeout=rt)) for a in CHAIN]
    name = {nd["addr"]: "n%d" % i for i, nd in enumerate(nodes)}
    rules = []
    if fault:
        kind, addr = fault
        rules.append(dict(src=name[addr], kind=kind, fate="P"))
    ns = net.NetSim(nodes, seed=seed, jitter=jitter, faults=rules, gap_ms=max(300, 2 * rt + 100))
    msg = bytes((i * 3 + typ) & 0xFF for i in range(n))
    tr = ns.run([net.job_write(name[s], d, typ, msg, chk=["C13", "C07"], budget_ms=6000)])
    tr["meta"] = dict(job=[oct(s), oct(d), typ, n], fault=[fault[0], oct(fault[1])] if fault else None, tx_timeout=tt,
                      route_timeout=rt, seed=seed, jitter=jitter, hops=len(route(s, d)) - 1)
    return tr


def scenario_slow(args):
    """slow first hop (the origin's first packets are lost) and a NETWORK_ACK that comes back late but inside the window"""
    s, d, typ, n_user, n_ack, tt, rt, seed, jitter = args
    nodes = [dict(addr=a, kind="net", opts=dict(tx_timeout=tt, route_timeout=rt)) for a in CHAIN]
    name = {nd["addr"]: "n%d" % i for i, nd in enumerate(nodes)}
    r = route(s, d)
    rules = [dict(src=name[s], kind="user", fate="P", count=n_user), dict(src=name[r[-2]], kind="ack", fate="P", count=n_ack)]
    ns = net.NetSim(nodes, seed=seed, jitter=jitter, faults=rules, gap_ms=max(300, 2 * rt + 100))
    tr = ns.run([net.job_write(name[s], d, typ, b"late", chk=["C13", "C07"], budget_ms=6000)])
    tr["meta"] = dict(job=[oct(s), oct(d), typ, 4], fault=["slow-first-hop+late-ack", "%d/%d" % (n_user, n_ack)], tx_timeout=tt,
                      route_timeout=rt, seed=seed, jitter=jitter, hops=len(r) - 1)
    return tr


def scenario_cross(args):
    """cross traffic: a relay waits for its own NETWORK_ACK (which never comes) while one for a descendant passes through it"""
    a_src, a_dst, b_src, b_dst, broken, delay_us, seed, jitter = args[:8]
    mc_off = len(args) > 8 and args[8]          # the waiting relay runs with allow_multicast off (its other relaying branch)
    nodes = [dict(addr=a, kind="net", **(dict(opts={"allow_multicast": False}, reassign=True) if (mc_off and a == b_src) else {}))
             for a in CHAIN]
    name = {nd["addr"]: "n%d" % i for i, nd in enumerate(nodes)}
    rules = [dict(src=name[broken], kind="user", fate="P", to=b_dst)]
    ns = net.NetSim(nodes, seed=seed, jitter=jitter, gap_ms=400,
                    fate_fn=lambda pkt: ("P" if (pkt["src"] == name[broken] and len(pkt["data"]) >= 8 and pkt["data"][6] != 193
                                                 and (pkt["data"][2] | pkt["data"][3] << 8) == b_dst) else "D"))
    ja = net.job_write(name[a_src], a_dst, 65, b"descendant", chk=[], jid=1, budget_ms=6000)
    jb = net.job_write(name[b_src], b_dst, 65, b"relay", chk=["C13x"], jid=2, budget_ms=6000)
    scripts = {name[a_src]: [(1_000_000, lambda ns_, nm: ja["fn"](ns_, nm, ja))],
               name[b_src]: [(1_000_000 + delay_us * 1000, lambda ns_, nm: jb["fn"](ns_, nm, jb))]}
    tr = ns.run([], scripts=scripts)
    tr["meta"] = dict(job=[oct(b_src), oct(b_dst), 65, 5], fault=["cross-traffic", oct(a_src) + "->" + oct(a_dst)], tx_timeout=25,
                      route_timeout=75, seed=seed, jitter=jitter, hops=len(route(b_src, b_dst)) - 1, delay_us=delay_us, mc_off=bool(mc_off))
    return tr


def build(chk):
    quick = chk.tier == "quick"
    rng = random.Random(chk.seed + 13)
    routes = [(0, 0o1), (0o11, 0o1), (0o1, 0o2), (0o11, 0), (0o111, 0), (0o13, 0o11), (0o111, 0o2), (0o1111, 0o3),
              (0o1111, 0o22), (0o1111, 0o2222), (0o2222, 0o111)]
    if quick:
        types = [0, 1, 64, 65, 127, 129, 191, 192, 196, 255]
    else:
        types = [t for t in range(256) if t not in CONSUMED]
    jobs = []
    k = 0
    for (s, d) in routes:
        r = route(s, d)
        faults = [None] + [("user", a) for a in r[:-1]] + [("ack", a) for a in r[1:-1]]
        for typ in (types if not quick else rng.sample(types, 5) + [65, 0]):
            fl = faults if (not quick or typ in (65, 0)) else [None, rng.choice(faults)]
            for f in fl:
                for (tt, rt) in (([(25, 75), (25, 150), (10, 30)] if typ == 65 else [(25, 75)]) if quick
                                 else [(25, 75), (5, 25), (75, 150), (150, 75)]):
                    if not quick and (tt, rt) != (25, 75) and typ not in (0, 65, 127, 191, 192):
                        continue
                    k += 1
                    jobs.append((s, d, typ, rng.choice([0, 1, 24]), f, tt, rt, chk.seed * 7919 + k, rng.choice([3000, 40000])))
    return jobs


def run(chk):
    chk.rule = ("single-frame unicast writes on 11 routes of 1..8 hops over an 11-node tree, message types (quick: 10 "
                "boundary/representative types; thorough: all 247 types the network does not consume), fault = none | every "
                "choice of one node whose data transmissions all fail | one node whose NETWORK_ACK transmissions all fail, "
                "tx_timeout/route_timeout in {(25,75)} (thorough + (5,25),(75,150),(150,75)); distinct = scenarios")
    jobs = build(chk)
    quick = chk.tier == "quick"
    # L2 design model of the node algorithm (NetNode.tla) and its step-by-step binding to the real nodes (TraceNetNode.tla)
    from checks import netnode
    netnode.model(chk, quick)
    netnode.conform(chk, quick)
    chk.phase("netnode")
    slow = [(0o11, 0o2, 65, nu, na, 25, rt, chk.seed * 131 + i, 3000)
            for i, (nu, na, rt) in enumerate([(nu, na, rt) for nu in (6, 8, 10, 12) for na in (0, 4, 6, 8, 10) for rt in (40, 75)])]
    cross = [(0o11, 0o2, 0o1, 0o3, 0, d, chk.seed * 137 + i, 3000, off) for off in (False, True)
             for i, d in enumerate(range(250, 6000, 250 if quick else 100))]
    with ProcessPoolExecutor(16) as ex:
        traces = list(ex.map(scenario, jobs, chunksize=4)) + list(ex.map(scenario_slow, slow, chunksize=2)) \
            + list(ex.map(scenario_cross, cross, chunksize=2))
    # multicasts of acknowledged types met by relaying receivers never cause a NETWORK_ACK (judged by the C14 window clauses,
    # only the C13 verdicts are taken here)
    from checks import c14
    relays = {a: {"multicast_relay": True} for a in (0o1, 0o2, 0o11, 0o21, 0o14)}
    mjobs = [(s_, lvl, t_, n_) for (s_, lvl) in ((0, 1), (0o1, None), (0o2, 2), (0o11, 1)) for t_ in (65, 127, 191) for n_ in (0, 24)]
    with ProcessPoolExecutor(16) as ex:
        mtr = list(ex.map(c14.run_chunk, [(c14.BASE, relays, mjobs[k:k + 6], chk.seed * 17 + k, 3000) for k in range(0, len(mjobs), 6)]))
    for t in mtr:
        t["meta"]["fault"] = ["multicast", "relays"]
    traces += mtr
    chk.phase("simulate")
    for t in traces:
        chk.case(str(t["meta"]))
    chk.traces += len(traces)
    w0 = traces[3]["wins"][0]
    chk.sample(dict(meta=traces[3]["meta"], ret=w0["ret"], network_acks=sum(1 for p in w0["pkts"] if len(p["data"]) > 7 and p["data"][6] == 193)))
    verdicts, st = tlc.validate("TraceNet", "TraceNet", jsonable([{k: v for k, v in t.items() if k != "meta"} for t in traces]),
                                shard=40, timeout=2400, multi=True, quiet=True)
    chk.add_stats(st, "write windows judged")
    chk.phase("judge")
    found = {}
    for t, vs in zip(traces, verdicts):
        for v in vs:
            m = t["meta"]
            if m.get("fault") == ["multicast", "relays"]:
                if v["clause"].startswith("C13"):
                    found.setdefault("%s:multicast:%s" % (v["clause"], v["detail"]), []).append(
                        (dict(addrs=m["addrs"], opts=m["opts"], seed=m["seed"], jobs=m["jobs"]), v, t["wins"][v["at"] - 1]["ret"]))
                continue
            typ = m["job"][2]
            tcls = "acktype" if 64 < typ < 192 else "plain"
            key = "%s:%s:hops%s:fault=%s:%s" % (v["clause"], tcls, "1" if m["hops"] == 1 else ">=2", m["fault"][0] if m["fault"] else "none",
                                                re.sub(r"\d+", "N", v["detail"]))
            found.setdefault(key, []).append((m, v, t["wins"][v["at"] - 1]["ret"]))
    for key, items in found.items():
        m, v, ret = items[0]
        chk.violation(v["clause"], key, dict(kind="c13", meta=m, ret=ret, count=len(items)), "%s [%d scenario(s)]" % (v["detail"], len(items)))
    chk.assumptions += ["the clause follows the statement literally: a NETWORK_ACK addressed to the sender within the window suffices",
                        "arrival is judged at the origin's radio (ground truth of the air); 3 ms polling slack at the window's end"]
