"""C07 - after any network operation the node listens again on all its addresses.
Network!Listening (TLA+) is evaluated by TraceNet.tla on the TRUE radio state of every node at EVERY public return
(update / write / send / multicast / node_address= / multicast_level= / mesh calls) in multi-node simulations of the
real nodes under faults: next hop absent, one node's data or NETWORK_ACK transmissions failing, fragment aborts at
every point, loop-back writes, address / level re-assignment mid-traffic, ACK loss."""
import random
import re
from concurrent.futures import ProcessPoolExecutor

from harness import sim, tlc, net
from harness.ev import jsonable

TREE = [0, 0o1, 0o2, 0o11, 0o21, 0o111]


def scenario(args):
    kind, p, seed, jitter = args
    rng = random.Random(seed)
    nodes = [dict(addr=a, kind=("routing" if (a == 0o1 and kind == "routing-mid") else "net")) for a in TREE]
    name = {nd["addr"]: "n%d" % i for i, nd in enumerate(nodes)}
    rules = []
    jobs = []
    msg = lambda n: bytes((i + n) & 0xFF for i in range(n))
    if kind == "absent-hop":
        s, d, t, n = p                              # destination (or an intermediate child) does not exist
        jobs.append(net.job_write(name[s], d, t, msg(n), budget_ms=8000))
    elif kind == "hop-fault":
        s, d, t, n, who, what = p
        rules.append(dict(src=name[who], kind=what, fate=rng.choice(["P", "A"])))
        jobs.append(net.job_write(name[s], d, t, msg(n), budget_ms=8000))
        jobs.append(net.job_write(name[d], s, 0, msg(3), budget_ms=8000))
    elif kind == "frag-abort":
        s, d, k, n = p
        rules.append(dict(src=name[s], kind="frag%d" % k, fate="P"))
        jobs.append(net.job_write(name[s], d, 65, msg(n), budget_ms=8000))
    elif kind == "loopback":
        s, t, n = p
        jobs.append(net.job_write(name[s], s, t, msg(n)))
    elif kind == "multicast":
        s, lvl, n = p
        jobs.append(net.job_multicast(name[s], msg(n), 1, lvl))
    elif kind == "reassign":
        s, new, lvl = p

        def body(ns, nm, new=new):
            ns.objs[nm].node_address = new
            return 0
        jobs.append(net.job_write(name[0], s, 0, msg(5)))
        jobs.append(net.job_call(name[s], "node_address=", body))
        jobs.append(net.job_call(name[s], "multicast_level=", lambda ns, nm, lvl=lvl: setattr(ns.objs[nm], "multicast_level", lvl) or 0))
        jobs.append(net.job_multicast(name[0], msg(4), 2, lvl))
        jobs.append(net.job_write(name[s], 0, 65, msg(30), budget_ms=8000))
    elif kind == "routing-mid":
        s, d, t, n = p
        jobs.append(net.job_write(name[s], d, t, msg(n), budget_ms=8000))
    elif kind == "context":
        # the documented idiom for a node that shares its radio: `with node: node.update(); node.send(...)`
        s, d, n = p

        def enter_update(ns, nm):
            ns.objs[nm].__enter__()
            return ns.objs[nm].update()
        jobs.append(net.job_call(name[s], "update", enter_update))
        jobs.append(net.job_write(name[d], s, 0, msg(n), budget_ms=8000))        # a frame for the node arrives while it is in its block
        jobs.append(net.job_write(name[s], d, 65, msg(n), budget_ms=8000))
    elif kind == "shared":
        # one radio time-shared by several objects of the program (the repository's test_context pattern): another network
        # node object of a different level, or a FakeBLE object, uses the radio in its own block; the node then enters its
        # block again, polls, receives and sends
        s, d, other = p

        def body(ns, nm, other=other):
            from circuitpython_nrf24l01.rf24_network import RF24Network
            from circuitpython_nrf24l01.fake_ble import FakeBLE
            o, chip = ns.objs[nm], ns.chips[nm]
            if other == "ble":
                o2 = FakeBLE(sim.FakeSpiDev(chip), 0, sim.Pin(chip))
                with o2:
                    o2.advertise(b"hi")
            else:
                o2 = RF24Network(sim.FakeSpiDev(chip), 0, sim.Pin(chip), other)
                with o2:
                    o2.update()
            o.__enter__()
            return o.update()
        jobs.append(net.job_write(name[d], s, 0, msg(n_ := 5), budget_ms=8000))
        jobs.append(net.job_call(name[s], "update", body))
        jobs.append(net.job_multicast(name[d], msg(4), 2, None if other == "ble" else (0 if s == 0 else len(oct(s)) - 2)))
        jobs.append(net.job_write(name[d], s, 0, msg(6), budget_ms=8000))
        jobs.append(net.job_write(name[s], d, 65, msg(7), budget_ms=8000))
    elif kind == "mc-toggle":
        # multicast switched off and on again on a running node (each time followed by the documented re-assignment)
        s, other = p

        def off(ns, nm):
            o = ns.objs[nm]
            o.allow_multicast = False
            o.node_address = o.node_address
            return 0

        def on(ns, nm):
            o = ns.objs[nm]
            o.allow_multicast = True
            o.multicast_level = o.multicast_level
            return 0
        jobs.append(net.job_call(name[s], "node_address=", off))
        jobs.append(net.job_write(name[other], s, 0, msg(5), budget_ms=8000))
        jobs.append(net.job_call(name[s], "multicast_level=", on))
        jobs.append(net.job_write(name[s], other, 65, msg(30), budget_ms=8000))
    elif kind == "foreign-edit":
        # a second, unrelated network object of the same program (another radio, another network) edits ITS OWN address
        # scheme in place (the attributes are documented as mutable bytearrays); this node then re-derives its addresses
        s, other = p

        def body(ns, nm):
            from circuitpython_nrf24l01.rf24_network import RF24Network
            c2 = sim.Chip(sim.Air(ns.s), "foreign")
            o2 = RF24Network(sim.FakeSpiDev(c2), 0, sim.Pin(c2), 0o3)
            o2.address_prefix[0] ^= 0x17
            o2.address_suffix[1] ^= 0x41
            o2.address_suffix[5] ^= 0x41
            o2.node_address = 0o3
            o = ns.objs[nm]
            o.node_address = o.node_address
            return 0
        jobs.append(net.job_call(name[s], "node_address=", body))
        jobs.append(net.job_write(name[other], s, 0, msg(5), budget_ms=8000))
        jobs.append(net.job_multicast(name[s], msg(4), 2, None))
    elif kind == "power-cycle":
        # the radio is powered down and up again through the node's own attribute, then the node only receives
        s, other = p

        def cycle(ns, nm):
            o = ns.objs[nm]
            o.power = False
            o.power = True
            return o.update()
        jobs.append(net.job_call(name[s], "update", cycle))
        jobs.append(net.job_write(name[other], s, 0, msg(5), budget_ms=8000))
    # every third scenario runs in a private address space (prefix / suffix changed after construction, node_address re-assigned)
    priv = dict(prefix=0xA7, suffix=[0x5A, 0x69, 0x96, 0xA5, 0xC3, 0x3C]) if seed % 3 == 0 else {}
    ns = net.NetSim(nodes, seed=seed, jitter=jitter, faults=rules, **priv)
    tr = ns.run(jobs)
    tr["meta"] = dict(kind=kind, params=[oct(x) if isinstance(x, int) and i < 2 else x for i, x in enumerate(p)], seed=seed, jitter=jitter, private_addresses=bool(priv))
    return tr


def build(chk):
    quick = chk.tier == "quick"
    rng = random.Random(chk.seed + 7)
    jobs = []

    def add(kind, p):
        jobs.append((kind, p, chk.seed * 104729 + len(jobs), rng.choice([3000, 40000])))
    lens = [0, 24, 30, 100] if quick else [0, 1, 24, 25, 48, 49, 100, 144]
    for (s, d) in [(0, 0o3), (0o1, 0o31), (0o111, 0o4), (0o11, 0o211), (0o21, 0o5555), (0, 0o4444)]:
        for t in (0, 65):
            for n in (rng.sample(lens, 2) if quick else lens):
                add("absent-hop", (s, d, t, n))
    for (s, d) in [(0o111, 0o21), (0, 0o111), (0o21, 0o2)]:
        from checks.c13 import route
        r = route(s, d)
        for who in r[:-1]:
            for what in ("user", "ack"):
                for t in (0, 65):
                    for n in ([5, 60] if quick else [0, 5, 24, 60, 144]):
                        add("hop-fault", (s, d, t, n, who, what))
    for (s, d) in [(0o111, 0), (0, 0o1), (0o21, 0o111)]:
        for k in range(1, 7):
            add("frag-abort", (s, d, k, 144))
    for s in TREE:
        for n in (0, 24, 60):
            add("loopback", (s, rng.choice([0, 65]), n))
    for s in TREE:
        for lvl in (None, 0, 1, 2, 3, 4):
            add("multicast", (s, lvl, rng.choice([0, 24, 50])))
    for (s, new) in [(0o111, 0o31), (0o21, 0o12), (0o2, 0o5), (0o11, 0o11)]:
        for lvl in (0, 2, 4, 7):
            add("reassign", (s, new, lvl))
    for (s, d) in [(0o11, 0o21), (0o111, 0), (0, 0o11)]:
        for n in (5, 60):
            add("routing-mid", (s, d, 65, n))
    for (s, d) in [(0o11, 0o1), (0, 0o2), (0o21, 0o111)]:
        add("context", (s, d, 5))
    for (s, d, other) in [(0o11, 0o1, 0o3), (0o1, 0, 0o23), (0o21, 0o2, "ble"), (0, 0o1, 0o14), (0o111, 0o11, 0o5), (0o2, 0, "ble")]:
        add("shared", (s, d, other))
    for (s, d) in [(0o11, 0o1), (0o1, 0), (0o21, 0o111), (0o2, 0o21), (0, 0o1), (0o111, 0o11)]:
        add("mc-toggle", (s, d))
        add("foreign-edit", (s, d))
        add("power-cycle", (s, d))
    return jobs


def run(chk):
    chk.rule = ("fault scenarios on a 6-node tree: writes toward absent nodes, every choice of one node on the route whose data "
                "or NETWORK_ACK transmissions fail (lost packets or lost ACKs), fragment aborts at fragments 1..6, loop-back "
                "writes, multicasts from every node to every level, node_address / multicast_level re-assignment mid-traffic, "
                "routing-only relays; EVERY public return of EVERY node is judged; distinct = scenarios")
    # executions followed by the L2 model (TraceNetNode.tla): concurrent writes, backlogs, failing hops - C07.Listening is
    # evaluated there at every return and for every node at quiescence
    from checks import netnode
    netnode.conform(chk, chk.tier == "quick")
    jobs = build(chk)
    with ProcessPoolExecutor(16) as ex:
        traces = list(ex.map(scenario, jobs, chunksize=4))
    chk.phase("simulate")
    nret = 0
    for t in traces:
        chk.case(str(t["meta"]))
        nret += sum(len(w["rets"]) for w in t["wins"])
    chk.traces += len(traces)
    chk.extra["public_returns_judged"] = nret
    w0 = traces[0]["wins"][0]
    chk.sample(dict(meta=traces[0]["meta"], ret=w0["ret"], returns_in_window=len(w0["rets"]), radio_state_at_return=traces[0]["projs"][w0["ret"]["proj"] - 1]))
    verdicts, st = tlc.validate("TraceNet", "TraceNet", jsonable([{k: v for k, v in t.items() if k != "meta"} for t in traces]),
                                shard=30, timeout=2400, multi=True, quiet=True)
    chk.add_stats(st, "windows judged")
    chk.phase("judge")
    found = {}
    for t, vs in zip(traces, verdicts):
        for v in vs:
            key = "%s:%s:%s" % (v["clause"], t["meta"]["kind"], re.sub(r"\d+", "N", v["detail"]))
            found.setdefault(key, []).append((t["meta"], v))
    for key, items in found.items():
        m, v = items[0]
        chk.violation(v["clause"], key, dict(kind="c07", meta=m, count=len(items)), "%s [%d window(s)]" % (v["detail"], len(items)))
    chk.assumptions += ["with-block re-entry is C09's subject and not in this alphabet",
                        "the listening state is read from the radio double's registers and CE line, never from driver attributes"]
