"""C20 - rf24_lite honours the same link-level contract as RF24.
Re-runs the C01 / C02 / C03 / C08 / C10 drivers with the lite driver (through the real adafruit SPIDevice on a simulated
busio-style bus) as transmitter, as receiver and on both ends, judged by the same TLC monitors (TraceLink, TraceRf24Api,
TraceFifo) with the documented reductions, plus an exhaustive load_ack() sweep judged by TraceLoadAck."""
import itertools
import random
from concurrent.futures import ProcessPoolExecutor

from harness import tlc, sim, rfapi, link
from harness.ev import jsonable
from checks import c01, c02, c03, c08, c10


def lite_letters():
    out = []
    for op in rfapi.LITE_OPS:
        for a in rfapi.LITE_ARGS.get(op, rfapi.OPS[op]):
            out.append((op, a))
    return out


def run_lite_seqs(seqs):
    return c03.run_seqs((seqs, True))


def load_ack_sweep(args):
    lens, seed = args
    out = []
    for n in lens:
        for pipe in range(-1, 7):
            for fill in range(0, 4):
                lp = link.LinkPair(dict(ackpl=True, pipe=1), rx_lite=True, seed=seed)
                rx, chip = lp.rx, lp.rchip
                for i in range(fill):
                    rx.load_ack(bytes([0xA0 + i]), 1)
                pre = [dict(kind=e["kind"], pipe=e.get("pipe", -1), data=list(e["data"])) for e in chip.tx]
                buf = bytes((n + i) & 0xFF for i in range(n))
                exc, r = "none", None
                try:
                    r = rx.load_ack(buf, pipe)
                except Exception as e:  # noqa
                    exc = type(e).__name__
                post = [dict(kind=e["kind"], pipe=e.get("pipe", -1), data=list(e["data"])) for e in chip.tx]
                out.append(dict(n=n, buf=list(buf), pipe=pipe, fill=len(pre), pre=pre, post=post, exc=exc,
                                ret=bool(r) if r is not None else False, rett="bool" if isinstance(r, bool) else "other"))
    return out


def run(chk):
    quick = chk.tier == "quick"
    chk.rule = ("the C01, C02, C03, C08 and C10 drivers with rf24_lite as transmitter / receiver / both (same alphabets and "
                "fate scripts, lite API subset), plus load_ack() for every length 0..40 x pipe -1..6 x TX FIFO fill 0..3; "
                "distinct = traces / sequences / sweep points")
    r = tlc.mc("Rf24Send", "Rf24Send", timeout=900)
    chk.add_tlc(r, "L2 send/resend algorithm (shared by rf24_lite) satisfies the C02 clauses")
    # ---- C01 with lite on either / both ends
    traces = []
    with ProcessPoolExecutor(16) as ex:
        for (tl, rl) in ((True, False), (False, True), (True, True)):
            jobs = c01.jobs_for(chk, tx_lite=tl, rx_lite=rl)
            if quick:
                jobs = random.Random(chk.seed + 1).sample(jobs, len(jobs) // 2)
            traces += list(ex.map(c01.scenario, jobs, chunksize=4))
    for t in traces:
        chk.case(("c01", str(t["meta"])))
    chk.traces += len(traces)
    c01.judge(chk, traces, "C01 driver, lite ends")
    chk.phase("c01")
    # ---- C02 with lite as transmitter (and receiver)
    traces = []
    with ProcessPoolExecutor(16) as ex:
        for (tl, rl) in ((True, False), (True, True)) if not quick else ((True, False),):
            jobs = c02.build_jobs(chk, tx_lite=tl, rx_lite=rl)
            traces += list(ex.map(c02.scenario, jobs, chunksize=8))
    chk.traces += len(traces)
    for t in traces:
        chk.case(("c02", str(t["meta"])))
    verdicts, st = tlc.validate("TraceLink", "TraceLink", jsonable([dict(cfg=t["cfg"], ev=t["ev"]) for t in traces]),
                                shard=500, timeout=2400, multi=True)
    chk.add_stats(st, "C02 driver, lite transmitter")
    import re
    found = {}
    for t, vs in zip(traces, verdicts):
        for v in vs[:1]:
            e = t["ev"][v["at"] - 1]
            src = t["ev"][v["at"] - 2] if e["k"] == "drain" else e
            key = "%s:lite:%s:%s" % (v["clause"], src.get("api", src["k"]) + ("+fr" if src.get("fr") else ""), re.sub(r"\d+", "N", v["detail"]))
            nc = sum(1 for x in t["ev"][: v["at"]] if x["k"] != "drain")
            if key not in found or nc < found[key][0]:
                found[key] = (nc, t, v, src)
    for key, (nc, t, v, src) in found.items():
        chk.violation(v["clause"], key, dict(kind="link", meta=t["meta"], at=v["at"], failing_event=src), v["detail"])
    chk.phase("c02")
    # ---- C03: configuration round trip of the lite API (singles, pairs, random)
    L = lite_letters()
    rng = random.Random(chk.seed + 20)
    singles = [(x,) for x in L]
    pairs = list(itertools.product(L, repeat=2))
    rnd = [tuple(rng.choice(L) for _ in range(30)) for _ in range(100 if quick else 2000)]
    seqs = singles + pairs + rnd
    with ProcessPoolExecutor(16) as ex:
        chunks = [seqs[i::64] for i in range(64)]
        res = list(ex.map(run_lite_seqs, chunks))
    tr = [None] * len(seqs)
    for i, r_ in enumerate(res):
        tr[i::64] = r_
    single_bad = set()
    c03.judge(chk, seqs, tr, single_bad, "lite configuration API: singles, pairs, random depth-30", lite=True)
    chk.traces += len(seqs)
    for s_ in seqs:
        chk.case(("c03",) + tuple((op, rfapi.arg_repr(a)) for op, a in s_))
    chk.phase("c03")
    # ---- C08: pipe-0 restore on entering RX
    c08.explore(chk, c08.LITE_ALPHA, lite=True, depth_quick=3, depth_thorough=4, tag="lite:")
    chk.phase("c08")
    # ---- C10 with a lite DUT
    jobs, rndj = c10.build(chk, lite=True)
    if quick:
        jobs = jobs[::3]
    with ProcessPoolExecutor(16) as ex:
        traces = list(ex.map(c10.scenario, jobs, chunksize=32)) + list(ex.map(c10.random_history, rndj, chunksize=8))
    chk.traces += len(traces)
    for t in traces:
        chk.case(("c10", str(t["meta"])))
    verdicts, st = tlc.validate("TraceFifo", "TraceFifo", jsonable([dict(ev=t["ev"]) for t in traces]), shard=1500,
                                timeout=2400, multi=True)
    chk.add_stats(st, "C10 driver, lite DUT")
    found = {}
    for t, vs in zip(traces, verdicts):
        for v in vs:
            e = t["ev"][v["at"] - 1]
            key = "%s:lite:%s:%s" % (v["clause"], e["op"], v["detail"])
            found.setdefault(key, (t, v, e))
    for key, (t, v, e) in found.items():
        chk.violation(v["clause"], key, dict(kind="fifo", meta=t["meta"], at=v["at"], failing_event=e), v["detail"])
    chk.phase("c10")
    # ---- load_ack sweep
    with ProcessPoolExecutor(16) as ex:
        pts = []
        for res in ex.map(load_ack_sweep, [(list(range(41))[i::16], chk.seed) for i in range(16)]):
            pts += res
    verdicts, st = tlc.validate("TraceLoadAck", "TraceLoadAck", jsonable(pts), shard=400, quiet=True, timeout=900)
    chk.add_stats(st, "load_ack sweep")
    seen = {}
    for p_, v in zip(pts, verdicts):
        chk.case(("la", p_["n"], p_["pipe"], p_["fill"]))
        if v["clause"] != "ok":
            cls = "len0" if p_["n"] == 0 else "len32" if p_["n"] == 32 else "len>32" if p_["n"] > 32 else "len1..31"
            pcls = "pipe-ok" if 0 <= p_["pipe"] <= 5 else "pipe-bad"
            seen.setdefault("%s:%s:%s:%s" % (v["clause"], cls, pcls, v["detail"]), (p_, v))
    for key, (p_, v) in seen.items():
        chk.violation(v["clause"], key, dict(kind="load_ack", point=p_), v["detail"])
    chk.traces += len(pts)
    chk.phase("load_ack")
    chk.exhaustive = False
    chk.assumptions += ["documented reductions of rf24_lite: global dynamic payloads and payload length, auto-ack and 2-byte CRC "
                        "always on, ValueError instead of IndexError, no configuration cache; of C08 only the pipe-0 restore on "
                        "entering RX is claimed for rf24_lite (as the property states)"]
