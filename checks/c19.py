"""C19 - received BLE packets decode to what was advertised; all else is ignored safely.
Packets reach a real FakeBLE receiver over the simulated air from (i) a real FakeBLE sender, (ii) the independent
TLC encoder BleLink!Encode (BleGen.tla) for enumerated and adversarial PDUs (CRC-valid, malformed structures),
(iii) bit-corrupted and random payloads; TraceBle.tla decodes what was received with the Core-spec reference and judges
queueing, decoded values, exceptions and read() order."""
import json
import os
import random
import re
from concurrent.futures import ProcessPoolExecutor, ThreadPoolExecutor

from harness import tlc, sim
from harness.ev import jsonable
from checks.c18 import Ble

CH = {37: 2, 38: 26, 39: 80}


def norm_item(m, d):
    if isinstance(d, m.TemperatureServiceData):
        try:
            return dict(kind="temp", v=int(round(d.data * 1000)), b=[], pa=0, s=[])
        except Exception:  # noqa
            return dict(kind="temp", v=99999999, b=[], pa=0, s=[])
    if isinstance(d, m.BatteryServiceData):
        try:
            return dict(kind="battery", v=d.data, b=[], pa=0, s=[])
        except Exception:  # noqa  (truncated value: reading it is the application's business, not available()'s)
            return dict(kind="battery", v=-1, b=[], pa=0, s=[])
    if isinstance(d, m.UrlServiceData):
        try:
            sdec = list(d.data.encode("utf-8"))
        except Exception:  # noqa
            sdec = [-1]
        try:
            pa = d.pa_level_at_1_meter
        except Exception:  # noqa
            pa = 999
        return dict(kind="url", v=0, b=list(d.buffer[4:]), pa=pa, s=sdec)
    return dict(kind="raw", v=0, b=list(bytes(d)), pa=0, s=[])


def norm_elem(m, e):
    name = e.name
    if isinstance(name, str):
        name = name.encode("utf-8")
    return dict(mac=list(e.mac), has_name=name is not None, name=list(name) if name is not None else [],
                has_pa=e.pa_level is not None, pa=e.pa_level if e.pa_level is not None else 0,
                data=[norm_item(m, d) for d in e.data])


class Rx:
    def __init__(self):
        self.b = Ble()
        self.ble = self.b.ble
        self.ble.__enter__()
        self.ble.listen = True
        self.b.s.advance(300_000)

    def tune(self, rfch):
        if self.b.chip.r[5] != rfch:
            self.ble.listen = False
            self.ble.channel = rfch
            self.ble.listen = True
            self.b.s.advance(300_000)

    def feed(self, payload, rfch):
        """deliver 32 bytes over the air on rfch, call available(); returns the rx vector"""
        self.tune(rfch)
        chip, b = self.b.chip, self.b
        rx = b.air.phantom_tx(chip.pipe_addr(0), rfch, chip.aw(), chip.rate(), chip.crc_len(), bytes(payload))
        n0 = len(self.ble.rx_queue)
        exc = "none"
        if not any(how == "new" for (_, _, how) in rx):      # the listening FakeBLE's radio did not take a packet on its channel
            return dict(k="rx", payload=list(payload), rfch=rfch, exc="NotListening", queued=0,
                        elem=dict(mac=[], has_name=False, name=[], has_pa=False, pa=0, data=[]), has_sent=False,
                        sent=dict(mac=[], has_name=False, name=[], has_pa=False, pa=0, data=[]))
        b.s.deadline = b.s.now + 200_000_000
        try:
            self.ble.available()
        except sim.WatchdogExpired:
            exc = "Hang"
        except Exception as e:  # noqa
            exc = type(e).__name__
            chip.rx.clear()
        b.s.deadline = None
        q = len(self.ble.rx_queue) - n0
        elem = norm_elem(b.m, self.ble.rx_queue[-1]) if q > 0 else dict(mac=[], has_name=False, name=[], has_pa=False, pa=0, data=[])
        while len(self.ble.rx_queue) > 4:
            self.ble.read()
        return dict(k="rx", payload=list(payload), rfch=rfch, exc=exc, queued=q, elem=elem, has_sent=False,
                    sent=dict(mac=[], has_name=False, name=[], has_pa=False, pa=0, data=[]))


def sender_vectors(args):
    """(i) a real FakeBLE advertises; the loaded payload is carried to the receiver"""
    seed, n, temps = args
    rng = random.Random(seed)
    rx = Rx()
    out = []
    pairs = [(p_, s_) for p_ in ("http://www.", "https://www.", "http://", "https://")
             for s_ in (".com/", ".org/", ".edu/", ".net/", ".info/", ".biz/", ".gov/", ".com", ".org", ".edu", ".net", ".info", ".biz", ".gov",
                        # the expansion codes in the middle of the URL: a path / query after the domain, a domain suffix
                        # inside a longer label, two codes in one URL
                        ".com/ab", ".org/b?c=1", ".community", ".info/p.biz", ".net/x.gov/", ".edu/.edu")]
    jobs = [("temp", t) for t in temps] + [(None, None)] * n + [("url", pr) for pr in pairs[seed % 16::16]] + \
        [("temp", t_) for t_ in (-12.34, 56.78)] + [("battery2", b_) for b_ in (7, 201)]
    for (forced, tval) in jobs:
        tx = Ble()
        ble, m = tx.ble, tx.m
        with ble:
            for _ in range(rng.randrange(3)):
                ble.hop_channel()
            mac = bytes(rng.randrange(256) for _ in range(6))
            ble.mac = mac
            sent = dict(mac=list(mac), has_name=False, name=[], has_pa=False, pa=0,
                        data=[dict(kind="raw", v=0, b=[2, 1, 5], pa=0, s=[])])     # the flags structure
            room = 18
            if forced is None and rng.random() < 0.4:
                nm = bytes(rng.choice(b"abcdefghijklmnop") for _ in range(rng.randrange(1, 6)))
                ble.name = nm
                sent["has_name"], sent["name"] = True, list(nm)
                room -= len(nm) + 2
            if forced is None and rng.random() < 0.4:
                ble.pa_level = rng.choice([0, -6, -12, -18])
                ble.show_pa_level = True
                sent["has_pa"], sent["pa"] = True, ble.pa_level
                room -= 3
            chunks = []
            if forced == "battery2":
                forced, bval = "battery", tval
            else:
                bval = None
            kinds = [forced] if forced else rng.sample(["battery", "temp", "url", "raw", "rawsd"], rng.randrange(0, 3))
            for kind in kinds:
                if kind == "battery":
                    sd = m.BatteryServiceData()
                    v = rng.randrange(256) if bval is None else bval
                    sd.data = v
                    item = dict(kind="battery", v=v, b=[], pa=0, s=[])
                    c = m.chunk(sd.buffer)
                elif kind == "temp":
                    sd = m.TemperatureServiceData()
                    v = tval if tval is not None else round(rng.uniform(-300, 300), 2)
                    sd.data = float(v)
                    item = dict(kind="temp", v=int(round(v * 1000)), b=[], pa=0, s=[])
                    c = m.chunk(sd.buffer)
                elif kind == "url":
                    sd = m.UrlServiceData()
                    if forced == "url" and tval is not None:      # every scheme prefix x every compressible suffix
                        url = tval[0] + rng.choice("abcxyz019") + tval[1]
                    else:
                        url = rng.choice(["http://www.", "https://www.", "http://", "https://"]) + \
                            "".join(rng.choice("abcdefghijklmnopqrstuvwxyz0123456789-") for _ in range(rng.randrange(1, 5))) + \
                            rng.choice([".com", ".org/", ".net", ".io", ".gov/", "/x"])
                    sd.data = url
                    p = rng.choice([-25, -4, 0, 7, -100])
                    sd.pa_level_at_1_meter = p
                    item = dict(kind="url", v=0, b=[], pa=p, s=list(url.encode()))
                    c = m.chunk(sd.buffer)
                elif kind == "raw":
                    body = bytes(rng.randrange(256) for _ in range(rng.randrange(1, 5)))
                    c = m.chunk(body, 0xFF)
                    item = dict(kind="raw", v=0, b=list(c), pa=0, s=[])
                else:
                    body = bytes([0x34, 0x12]) + bytes(rng.randrange(256) for _ in range(rng.randrange(0, 4)))
                    c = m.chunk(body, 0x16)
                    item = dict(kind="raw", v=0, b=list(c[1:]), pa=0, s=[])
                if len(c) <= room:
                    room -= len(c)
                    chunks.append(c)
                    sent["data"].append(item)
            adv = tx.advertise(chunks=chunks)
        if adv["exc"] != "none" or not adv["payload"]:
            continue
        v = rx.feed(adv["payload"], adv["rfch"])
        v["has_sent"], v["sent"] = True, sent
        out.append(v)
    # read() order; the elements are only inspected after all four packets have been polled (available() x 4, then read() x 4):
    # each must still decode to what ITS packet carried
    rx2 = Rx()
    macs, elems = [], []
    for v in out[:4]:
        v2 = rx2.feed(v["payload"], v["rfch"])
        macs.append(v["sent"]["mac"])
        if v2["queued"]:
            elems.append(v["elem"])              # (as decoded when the first receiver polled this very packet alone)
    got, gote = [], []
    while True:
        e = rx2.ble.read()
        if e is None:
            break
        got.append(list(e.mac))
        gote.append(norm_elem(rx2.b.m, e))
    out.append(dict(k="order", read_macs=got, arrived_macs=macs[-len(got):] if got else [], read_elems=gote,
                    arrived_elems=elems[-len(gote):] if gote else []))
    # a node that scans AND advertises: what available() already queued survives the node's own advertisement (a further
    # packet that arrived but was not polled yet is waiting in the radio at that moment)
    if len(out) >= 3 and all(v.get("k") == "rx" and v.get("has_sent") for v in out[:2]):
        rx3 = Rx()
        rx3.feed(out[0]["payload"], out[0]["rfch"])
        rx3.tune(out[1]["rfch"])
        c3 = rx3.b.chip
        rx3.b.air.phantom_tx(c3.pipe_addr(0), out[1]["rfch"], c3.aw(), c3.rate(), c3.crc_len(), bytes(out[1]["payload"]))
        rx3.ble.listen = False
        adv3 = rx3.b.advertise(single=(b"\x01\x02", 0xFF))
        rx3.ble.listen = True
        got = []
        while adv3["exc"] == "none":
            e = rx3.ble.read()
            if e is None:
                break
            got.append(list(e.mac))
        out.append(dict(k="order", read_macs=got[:1], arrived_macs=[out[0]["sent"]["mac"]] if out[0]["queued"] else []))
    # several packets already wait in the radio when the application polls (its FIFO holds three): a packet that fails the CRC
    # in front of / between / behind valid ones is ignored, the valid ones are still queued, in order
    good = [v for v in out if v.get("k") == "rx" and v.get("has_sent") and v.get("queued")]
    pair = next(((a, b) for i, a in enumerate(good) for b in good[i + 1:] if a["rfch"] == b["rfch"] and a["payload"] != b["payload"]), None)
    if pair:
        a, b = pair
        junk = list(a["payload"])
        junk[7] ^= 0x10
        for order in ((junk, a["payload"], b["payload"]), (a["payload"], junk, b["payload"]), (a["payload"], b["payload"], junk)):
            rx5 = Rx()
            rx5.tune(a["rfch"])
            c5 = rx5.b.chip
            for pl in order:
                rx5.b.air.phantom_tx(c5.pipe_addr(0), a["rfch"], c5.aw(), c5.rate(), c5.crc_len(), bytes(pl))
            exc = False
            for _ in range(4):
                try:
                    rx5.ble.available()
                except Exception:  # noqa
                    exc = True
            got = []
            while not exc:
                e = rx5.ble.read()
                if e is None:
                    break
                got.append(list(e.mac))
            out.append(dict(k="order", read_macs=got, arrived_macs=[a["sent"]["mac"], b["sent"]["mac"]]))
    # two receiving objects in one process, fed and polled in turn: each hands out exactly what ITS radio received
    if len(out) >= 4:
        rxa, rxb = Rx(), Rx()
        plan = [(rxa, out[0]), (rxb, out[1]), (rxa, out[2]), (rxb, out[3])]
        want = {id(rxa): [], id(rxb): []}
        for r_, v in plan:
            if v.get("k") == "rx" and v.get("has_sent"):
                r_.feed(v["payload"], v["rfch"])
                want[id(r_)].append(v["sent"]["mac"])
        for r_ in (rxa, rxb):
            got = []
            while True:
                e = r_.ble.read()
                if e is None:
                    break
                got.append(list(e.mac))
            out.append(dict(k="order", read_macs=got, arrived_macs=want[id(r_)]))
    return out


def feed_many(args):
    items = args
    rx = Rx()
    return [rx.feed(p, ch) for (p, ch) in items]


def adversarial_pdus(rng, quick):
    """PDUs for the TLC encoder: enumerated valid contents and CRC-valid packets with hostile structures"""
    out = []
    mac = [1, 2, 3, 4, 5, 6]

    def add(ad, chidx=None, hdr=0x42, ln=None):
        pdu = [hdr, (6 + len(ad)) if ln is None else ln] + mac + ad
        if len(pdu) <= 29:
            out.append(dict(ch=chidx or rng.choice([37, 38, 39]), pdu=pdu))
    flags = [2, 1, 5]
    for batt in ([0, 1, 127, 128, 255] if quick else range(256)):
        add(flags + [4, 0x16, 0x0F, 0x18, batt])
    for t in [-30000, -1, 0, 1, 29, 2999, 30000, -8388608, 8388607]:
        u = t & 0xFFFFFF
        add(flags + [7, 0x16, 0x09, 0x18, u & 255, (u >> 8) & 255, (u >> 16) & 255, 0xFE])
    add(flags + [2, 0x0A, 0xEE] + [6, 0x08] + list(b"nRF24"))
    add(flags + [3, 0x09, 0xFF, 0xFE])                                    # non UTF-8 name
    add(flags + [9, 0x16, 0xAA, 0xFE, 0x10, 0xE7, 0x00] + list(b"ab") + [0x07])
    # hostile structures (all CRC-valid)
    for typ in (0x16, 0x0A, 0x08, 0x09, 0xFF, 0x01, 0x00):
        for n in range(0, 5):
            body = [rng.randrange(256) for _ in range(n)]
            add(flags + [n + 1, typ] + body)                               # type with 0..4 data bytes
            add(flags + [n + 4, typ] + body)                               # length overruns the PDU
            add([n + 1, typ] + body + [0])                                 # zero-length structure follows
    for uuid in ((0x09, 0x18), (0x0F, 0x18), (0xAA, 0xFE)):
        for n in range(0, 4):
            add(flags + [3 + n, 0x16, uuid[0], uuid[1]] + [rng.randrange(256) for _ in range(n)])   # truncated service data
    add([0])
    add([])
    add(flags, ln=3)            # length byte shorter than an AdvA
    add(flags, ln=0)
    add(flags, hdr=0x40)
    # length bytes with the reserved upper bits set, CRC valid over the length the low six bits spell: inconsistent, not queued
    for hi in (0x40, 0x80, 0xC0):
        for ad in (flags, flags + [4, 0x16, 0x0F, 0x18, 77], flags + [6, 0x08] + list(b"nRF24"), [], flags + [2, 0x0A, 0xEE] + [3, 0x09, 65, 66]):
            add(ad, ln=(6 + len(ad)) | hi)
    for _ in range(30 if quick else 400):
        n = rng.randrange(0, 22)
        add([rng.randrange(256) for _ in range(n)])
    return out


def run(chk):
    quick = chk.tier == "quick"
    chk.rule = ("(i) advertisements of a real FakeBLE sender (names, PA field, battery / temperature -300..300 / Eddystone URL "
                "/ raw chunks, 3 channels); (ii) PDUs encoded by the independent TLC encoder: enumerated values and CRC-valid "
                "packets with hostile structures; (iii) every single-bit, sampled (thorough: all) double-bit corruptions of a "
                "valid packet and random 32-byte payloads; each delivered over the simulated air to a real FakeBLE receiver; "
                "distinct = packets")
    r = tlc.mc("BleSelf", timeout=600)
    chk.add_tlc(r, "reference self-check")
    rng = random.Random(chk.seed + 19)
    wd = tlc.workdir("c19")
    # (ii) TLC encodes
    pdus = adversarial_pdus(rng, quick)
    path = os.path.join(wd, "pdus.json")
    with open(path, "w") as f:
        json.dump(pdus, f)
    rg = tlc.run("BleGen", "BleGen", wd=wd, workers=8, timeout=900, env={"TRACE_FILE": path})
    if "No error has been found" not in rg["stdout"]:
        raise tlc.TlcError("BleGen failed:\n" + rg["stdout"][-2000:])
    chk.add_tlc(rg, "independent encoder")
    enc = {}
    for m in re.finditer(r'^"ENC <<(\d+), <<(.*?)>>>>"$', rg["stdout"], re.M):
        enc[int(m.group(1))] = [int(x) for x in m.group(2).split(",")] if m.group(2).strip() else []
    if len(enc) != len(pdus):
        raise tlc.TlcError("encoder produced %d of %d packets" % (len(enc), len(pdus)))
    gen = [((enc[i + 1] + [0] * 32)[:32], CH[p["ch"]]) for i, p in enumerate(pdus)]
    chk.phase("encode")
    # (i) real sender
    temps_all = [x / 100 for x in range(-30000, 30001)]
    temps = (rng.sample(temps_all, 600) + [-300.0, -0.01, 0.0, 0.01, 0.29, 0.57, 1.13, 300.0, -127.99, 83.88]) if quick else temps_all
    vec = []
    with ProcessPoolExecutor(16) as ex:
        for res in ex.map(sender_vectors, [(chk.seed * 17 + i, 40 if quick else 400, temps[i::16]) for i in range(16)]):
            vec += res
        chk.phase("sender")
        # (iii) corruptions of one valid packet + random payloads
        base, bch = gen[0]
        items = list(gen)
        for bit in range(256):
            p = list(base)
            p[bit // 8] ^= 1 << (bit % 8)
            items.append((p, bch))
        pairs = [(a, b) for a in range(256) for b in range(a + 1, 256)]
        for (a, b) in (rng.sample(pairs, 1500) if quick else pairs):
            p = list(base)
            p[a // 8] ^= 1 << (a % 8)
            p[b // 8] ^= 1 << (b % 8)
            items.append((p, bch))
        for _ in range(500 if quick else 20000):
            items.append(([rng.randrange(256) for _ in range(32)], rng.choice([2, 26, 80])))
        for res in ex.map(feed_many, [items[i::32] for i in range(32)]):
            vec += res
    chk.phase("feed")
    for v in vec:
        chk.case(tuple(v.get("payload", [])) or str(v))
    chk.traces += len(vec)
    chk.sample(next(v for v in vec if v.get("has_sent") and v["sent"]["data"]))
    verdicts, st = tlc.validate("TraceBle", "TraceBle", jsonable(vec), shard=700, quiet=True, timeout=2400)
    chk.add_stats(st, "received packets judged with the Core-spec reference")
    chk.phase("judge")
    seen = {}
    for v, vd in zip(vec, verdicts):
        if vd["clause"] != "ok":
            kinds = "+".join(sorted({d["kind"] for d in v.get("sent", {}).get("data", [])})) if v.get("has_sent") else "wire"
            key = "%s:%s:%s" % (vd["clause"], kinds, vd["detail"])
            seen.setdefault(key, (v, vd))
    for key, (v, vd) in seen.items():
        chk.violation(vd["clause"], key, dict(kind="rx", vector=v), vd["detail"])
    chk.assumptions += ["temperatures are compared in thousandths: |decoded - advertised| <= 0.005",
                        "a CRC-valid PDU shorter than an AdvA or with another PDU type may be queued or ignored",
                        "for malformed / truncated data structures only 'no exception' and CRC/length consistency are demanded"]
