"""C14 - a multicast reaches exactly the chosen network level, unacknowledged.
TraceNet.tla (C14 clauses over Network.tla) judges job windows of multi-node simulations: every sender class x target
level (default, 0..4) on populated topologies with relay / allow_multicast options per node, several message lengths;
receivers' queues are read at quiescence only."""
import random
from concurrent.futures import ProcessPoolExecutor

from harness import tlc, net
from harness.ev import jsonable

BASE = [0, 0o1, 0o2, 0o3, 0o4, 0o11, 0o21, 0o12, 0o14, 0o111, 0o211, 0o1111, 0o2111]   # 0o14: relays without any delay (address % 4 = 0, level 2)


def run_chunk(args):
    addrs, opts, jobs, seed, jitter = args
    nodes = [dict(addr=a, kind="net", opts=dict(opts.get(a, {})), reassign=("allow_multicast" in opts.get(a, {}))) for a in addrs]
    ns = net.NetSim(nodes, seed=seed, jitter=jitter, lazy_drain=True)
    name = {nd["addr"]: nd["name"] for nd in nodes}
    js = []
    for ji, job in enumerate(jobs):
        (s, lvl, t, n), hold = job[:4], len(job) > 4
        if ji % 4 == 0 and not hold:
            # ordinary unicast traffic in between: routed ack-type writes (their NETWORK_ACK wait must not leave a node
            # acknowledging multicasts afterwards)
            for (a, b) in ((0o1, 0o2), (0o11, 0o3), (0o21, 0o12)):
                if opts.get(a, {}).get("allow_multicast") is not False:
                    js.append(net.job_write(name[a], b, 65, b"unicast", chk=["C07"], budget_ms=6000))
        msg = bytes(((i * 5 + n + s) & 0xFF) for i in range(n))
        js.append(net.job_multicast(name[s], msg, t, lvl, chk=["C14", "C07"], hold=hold))
    tr = ns.run(js)
    tr["meta"] = dict(addrs=[oct(a) for a in addrs], opts={oct(a): o for a, o in opts.items()}, seed=seed, jitter=jitter,
                      jobs=[[oct(j[0])] + list(j[1:]) for j in jobs])
    return tr


def scenario_wait(args):
    """a multicast arrives at a node that is waiting for the NETWORK_ACK of its own routed message (which never comes):
    during the whole wait it must stay a silent receiver of its level's shared address"""
    waiter, far, sender, lvl, delay_us, seed, jitter = args
    addrs = [0, 0o1, 0o2, 0o3, 0o11, 0o21]
    nodes = [dict(addr=a, kind="net") for a in addrs]
    name = {nd["addr"]: "n%d" % i for i, nd in enumerate(nodes)}
    ns = net.NetSim(nodes, seed=seed, jitter=jitter, gap_ms=400, lazy_drain=True,
                    fate_fn=lambda pkt: ("P" if (len(pkt["data"]) >= 8 and pkt["data"][6] == 65 and pkt["src"] != name[waiter]) else "D"))
    ja = net.job_write(name[waiter], far, 65, b"unconfirmed", chk=[], jid=1, budget_ms=6000)
    jb = net.job_multicast(name[sender], b"while you wait", 1, lvl, chk=["C14w"], jid=2)
    scripts = {name[waiter]: [(1_000_000, lambda ns_, nm: ja["fn"](ns_, nm, ja))],
               name[sender]: [(1_000_000 + delay_us * 1000, lambda ns_, nm: jb["fn"](ns_, nm, jb))]}
    tr = ns.run([], scripts=scripts)
    tr["meta"] = dict(addrs=[oct(a) for a in addrs], opts={}, seed=seed, jitter=jitter, jobs=[[oct(sender), lvl, 1, 14]],
                      waiting=[oct(waiter), oct(far)], delay_us=delay_us)
    return tr


def build(chk):
    quick = chk.tier == "quick"
    rng = random.Random(chk.seed + 14)
    chunks = []
    variants = [("no relays", {}),
                ("relays on levels 1-2", {a: {"multicast_relay": True} for a in (0o1, 0o2, 0o11, 0o21, 0o14)}),
                ("all relay", {a: {"multicast_relay": True} for a in BASE}),
                ("opt-outs", {0o2: {"allow_multicast": False}, 0o21: {"allow_multicast": False}, 0o1: {"multicast_relay": True}})]
    if not quick:
        for k in range(6):
            o = {}
            for a in BASE:
                x = rng.random()
                if x < 0.35:
                    o[a] = {"multicast_relay": True}
                elif x < 0.5:
                    o[a] = {"allow_multicast": False}
            variants.append(("random %d" % k, o))
    senders = [0, 0o1, 0o2, 0o11, 0o111, 0o1111, 0o2111]
    lens = [0, 24, 25] if quick else [0, 1, 24, 25, 49, 144]
    for vi, (vname, opts) in enumerate(variants):
        jobs = []
        for s in senders:
            if opts.get(s, {}).get("allow_multicast") is False:
                continue
            for lvl in (None, 0, 1, 2, 3, 4):
                for n in (rng.sample(lens, 1) if quick else lens):
                    jobs.append((s, lvl, rng.choice([0, 65, 127, 1]), n))
        rng.shuffle(jobs)
        per = 8
        for k in range(0, len(jobs), per):
            chunks.append((BASE, opts, jobs[k:k + per], chk.seed * 100 + vi * 1000 + k, rng.choice([3000, 40000])))
        # bursts: a node multicasts again (same type, another message) before the receivers' applications have read the
        # first one - both are distinct messages and both must arrive
        burst = []
        for s in (senders if not quick else rng.sample(senders, 3)):
            if opts.get(s, {}).get("allow_multicast") is False:
                continue
            lvl, t = rng.choice([None, 1, 2]), rng.choice([0, 65, 127])
            n1, n2 = rng.sample([1, 5, 24, 25, 30], 2)
            burst += [(s, lvl, t, n1), (s, lvl, t, n2, "hold")]
        chunks.append((BASE, opts, burst, chk.seed * 100 + vi * 1000 + 999, 3000))
    return chunks


def run(chk):
    chk.rule = ("sender classes (master, 0o1, other level-1, levels 2..4) x target level (default, 0..4) on a 13-node tree of "
                "5 levels, node options: no relays / relays on levels 1-2 / all relay / allow_multicast off on some nodes "
                "(thorough: + 6 seeded option mixes), message lengths {0,24,25} (thorough {0,1,24,25,49,144}), seeded jitter; "
                "distinct = (options, sender, level, length) jobs")
    # design-level account of the open finding (McastRelay.tla): a receiver that re-broadcasts each fragment before it reads
    # the next one loses fragments for some timing combinations; without the relay it never does
    from checks import netnode
    netnode.conform(chk, chk.tier == "quick")     # multicasts / relays of real nodes followed by the L2 model NetNode.tla
    rp = tlc.mc("McastRelay", "McastRelay_plain", timeout=300)
    r2 = tlc.mc("McastRelay", "McastRelay_relay2", timeout=300)
    rr = tlc.run("McastRelay", "McastRelay_relay", timeout=300)
    chk.add_tlc(rp, "McastRelay, receiver does not relay: no fragment lost for any timing combination (6 fragments)")
    chk.add_tlc(r2, "McastRelay, relaying level-1 receiver, 2 fragments: nothing lost")
    if rr["ok"] or rr.get("violated") != "C14_NoFragmentLost":
        raise tlc.TlcError("McastRelay (Relay = TRUE) no longer exhibits the lost fragment: the design account of the open C14 "
                           "finding is out of date\n" + rr["stdout"][-1500:])
    chk.extra["relay_loss_counterexample_from_design"] = len(rr.get("cex", []))
    chunks = build(chk)
    with ProcessPoolExecutor(16) as ex:
        traces = list(ex.map(run_chunk, chunks))
        waits = []
        for (waiter, far, sender, lvl) in [(0o1, 0o2, 0o3, 1), (0o1, 0o21, 0, 1), (0o11, 0o2, 0o21, 2), (0o11, 0o3, 0, 2), (0o2, 0o11, 0o3, None)]:
            for delay_us in ((5000, 40000) if chk.tier == "quick" else (2000, 5000, 20000, 40000, 70000)):
                waits.append((waiter, far, sender, lvl, delay_us, chk.seed * 31 + len(waits), (3000, 40000)[len(waits) % 2]))
        traces += list(ex.map(scenario_wait, waits))
    chk.phase("simulate")
    for t in traces:
        for j in t["meta"]["jobs"]:
            chk.case((str(t["meta"]["opts"]), tuple(j)))
    chk.traces += len(traces)
    w0 = traces[0]["wins"][0]
    chk.sample(dict(opts=traces[0]["meta"]["opts"], call={k: v for k, v in w0["call"].items() if k != "msg"},
                    deq_nodes=[d["n"] for d in w0["deqs"]], packets=len(w0["pkts"])))
    verdicts, st = tlc.validate("TraceNet", "TraceNet", jsonable([{k: v for k, v in t.items() if k != "meta"} for t in traces]),
                                shard=4, timeout=2400, multi=True, quiet=True)
    chk.add_stats(st, "multicast windows judged")
    chk.phase("judge")
    found = {}
    for t, vs in zip(traces, verdicts):
        for v in vs:
            w = t["wins"][v["at"] - 1]
            c = w["call"]
            if c["api"] != "multicast":
                key = "%s:unicast-interlude:%s" % (v["clause"], v["detail"])
                found.setdefault(key, []).append((dict(kind="mcast", meta=t["meta"], job=[oct(c["src"]), oct(c["to"])]), v))
                continue
            cls = "master" if c["src"] == 0 else "0o1" if c["src"] == 1 else "level%d" % (len(oct(c["src"])) - 2)
            import re
            key = "%s:%s->L%s:%s" % (v["clause"], cls, c["level"] if c["level"] >= 0 else "default", re.sub(r"\d+", "N", v["detail"]))
            if c.get("hold"):
                key += ":second-of-a-burst"
            if v["clause"] == "C14.ExactlyLevel" and "did not receive" in v["detail"] and len(c["msg"]) > 24:
                # cause class (key only): every level-L node that missed the message relays, heard the first fragment(s), and
                # missed a later one while it was busy re-broadcasting (in TX mode, or its FIFO full while it slept before relaying)
                L = c["lvl"] if c["level"] < 0 else min(4, c["level"])
                got = {d["n"] for d in w["deqs"] if d["msg"] == c["msg"]}
                missing = [nd for nd in t["nodes"] if nd["lvl"] == L and nd["allow_mc"] and nd["name"] != c["n"] and nd["name"] not in got]
                mc = [p for p in w["pkts"] if len(p["data"]) >= 8 and p["data"][2] == 64 and p["data"][3] == 0]

                def busy_relaying(nm):
                    heard_from = {p["src"] for p in mc if any(x[0] == nm and x[2] == "new" for x in p["rx"])}
                    for p in mc:
                        if p["src"] in heard_from and not any(x[0] == nm and x[2] == "new" for x in p["rx"]):
                            if any(x[0] == nm and x[2] == "full" for x in p["rx"]):
                                return True
                            if any(q["src"] == nm and abs(q["t"] - p["t"]) < 3000 for q in mc):
                                return True
                    return False
                if missing and all(nd["relay"] and busy_relaying(nd["name"]) for nd in missing):
                    key = "C14.ExactlyLevel:fragmented:relaying-receiver-busy-re-broadcasting"
            wit = dict(kind="mcast", meta={k: t["meta"][k] for k in ("addrs", "opts", "seed", "jitter")},
                       job=[oct(c["src"]), c["level"], c["type"], len(c["msg"])] + (["hold"] if c.get("hold") else []), ret=w["ret"], deq_nodes=[d["n"] for d in w["deqs"]])
            found.setdefault(key, []).append((wit, v))
    for key, items in found.items():
        wit, v = items[0]
        wit["count"] = len(items)
        chk.violation(v["clause"], key, wit, "%s [%d window(s)]" % (v["detail"], len(items)))
    chk.assumptions += ["receivers' queues are read at quiescence (copies from several relays are removed by the queue's duplicate filter)",
                        "a node of a later level reached through relays is an expected receiver; the sender itself is not judged"]
