"""C15 - no received frame can crash a node or make it forward garbage.
NetAddr!IsValid (TLA+) is compared by TLC with the implementation's is_address_valid on all 65 536 values; frames of
every class (256 types x message length 0..24 x destination class x node role x level, truncated / oversized mesh
payloads, random byte strings and sequences) are injected over the simulated air into real nodes and TraceInject.tla
judges what update() did: exception, virtual time, queueing and retransmission of short / invalid frames."""
import random
import struct
from concurrent.futures import ProcessPoolExecutor

from harness import tlc, sim
from harness.ev import jsonable

ROLES = ["routing", "net", "mesh", "master"]
LEVEL_ADDR = {0: 0, 1: 0o3, 2: 0o23, 3: 0o123, 4: 0o4123}


class Node:
    def __init__(self, role, level, seed):
        self.s = sim.Sched(seed=seed)
        self.air = sim.Air(self.s)
        sim.install(self.s)
        self.air.acceptor = lambda c, p: b""          # every forward is ACKed by a phantom neighbour
        from circuitpython_nrf24l01.rf24_network import RF24Network, RF24NetworkRoutingOnly
        from circuitpython_nrf24l01.rf24_mesh import RF24Mesh
        self.chip = sim.Chip(self.air, "n")
        spi, ce = sim.FakeSpiDev(self.chip), sim.Pin(self.chip)
        addr = LEVEL_ADDR[level]
        if role == "routing":
            self.o = RF24NetworkRoutingOnly(spi, 0, ce, addr)
        elif role == "net":
            self.o = RF24Network(spi, 0, ce, addr)
        elif role == "master":
            self.o = RF24Mesh(spi, 0, ce, 0)
            self.o.dhcp_dict = {5: 0o1, 9: 0o21}
            addr = 0
        else:
            self.o = RF24Mesh(spi, 0, ce, 77)
            self.o._begin(addr) if addr else None       # a joined mesh node at this address (set up as renew_address() would)
            if not addr:
                addr = 0o4444
        self.o.route_timeout = 3
        self.addr = self.o.node_address
        self.role, self.level = role, level

    def restore_master(self):
        """a MESH_ADDR_RELEASE frame claiming to come from address 0 makes the master release its own address (it becomes an
        unassigned node; outside the listed clauses, see DESIGN.md 0.5 'observations'): put it back so that the vectors
        that follow really meet a master"""
        if self.role == "master" and self.o.node_address != 0:
            self.o._begin(0)
            self.s.advance(300_000)
            self.unmastered = getattr(self, "unmastered", 0) + 1

    def feed_seq(self, raws, pipes, route_timeout=None):
        chip, o, s = self.chip, self.o, self.s
        if route_timeout is not None:
            keep = o.route_timeout
            o.route_timeout = route_timeout
            try:
                return self.feed_seq(raws, pipes)
            finally:
                o.route_timeout = keep
        self.restore_master()
        self.k = getattr(self, "k", 0) + 1
        if self.role != "routing":
            o.multicast_relay = bool(self.k % 3 == 0)
        if self.role == "master":
            o.dhcp_dict = {5: 0o1, 9: 0o21}      # every sequence meets the same table (earlier vectors may have filled a parent)
        if chip.rx or not chip.listening_now():
            chip.rx.clear()
            o.listen = True
            s.advance(300_000)
        for raw, pipe in zip(raws, pipes):
            r = chip.inject(pipe, raw)
            if r[1] != "new":      # the node's radio does not take a packet sent to one of its own pipe addresses
                return dict(k="seq", role=self.role, level=self.level, addr=self.addr, raws=[list(r_) for r_ in raws], exc="Deaf",
                            queued=0, ntx=0, sent=[], dt=0, bound=1200000, cls="seq", typ=-2, left=0, dtmax=0, ubound=1)
        q0 = len(o.queue)
        self.air.log.clear()
        t0 = s.now
        s.deadline = t0 + 3_000_000_000
        exc = "none"
        dtmax = 0
        try:
            for _ in range(4):
                t1 = s.now
                o.update()
                dtmax = max(dtmax, (s.now - t1) // 1000)
                if not chip.rx:
                    break
        except sim.WatchdogExpired:
            exc = "Hang"
        except Exception as e:  # noqa
            exc = type(e).__name__
            chip.rx.clear()
        s.deadline = None
        dt = (s.now - t0) // 1000
        q1 = len(o.queue)
        left = len(chip.rx) if exc == "none" else 0       # payloads update() neither consumed nor discarded
        sent = [p["data"] for p in self.air.log]
        while o.available():
            o.read()
        return dict(k="seq", role=self.role, level=self.level, addr=self.addr, raws=[list(r) for r in raws], exc=exc,
                    queued=max(0, q1 - q0), ntx=len(sent), sent=sent, dt=int(dt), bound=1200000, cls="seq", typ=-2, left=left,
                    dtmax=int(dtmax), ubound=int(2 * (o.tx_timeout + o.route_timeout) * 1000 + 60000))

    def feed(self, raw, pipe):
        chip, o, s = self.chip, self.o, self.s
        self.restore_master()
        self.k = getattr(self, "k", 0) + 1
        if self.role != "routing":
            o.multicast_relay = bool(self.k % 3 == 0)       # every third vector meets a relaying node
        if chip.rx or not chip.listening_now():      # a previous (already reported) failure left the node deaf or clogged
            chip.rx.clear()
            o.listen = True
            s.advance(300_000)
        r = chip.inject(pipe, raw)
        if r[1] != "new":          # the node's radio does not take a packet sent to one of its own pipe addresses
            return dict(k="inj", role=self.role, level=self.level, addr=self.addr, raw=list(raw), exc="Deaf", queued=0, ntx=0, sent=[],
                        dt=0, bound=400000, left=0, cfg=dict(addr=self.addr, lvl=0, role=self.role, allowMc=True, relay=False,
                                                              retSys=False, parent=True, dhcp=[]),
                        ret=0, sent_full=[], qhead=dict(**{"from": -1}, to=-1, id=-1, type=-1, msg=[]), prefix=0xCC,
                        suffix=[0xC3, 0x3C, 0x33, 0xCE, 0x3E, 0xE3])
        q0 = len(o.queue) if hasattr(o, "queue") else 0
        cfg = dict(addr=o.node_address, lvl=o.multicast_level, role=self.role, allowMc=bool(o.allow_multicast),
                   relay=bool(o.multicast_relay), retSys=bool(o.ret_sys_msg), parent=bool(getattr(o, "allow_children", True)),
                   dhcp=sorted([int(a), int(b)] for a, b in getattr(o, "dhcp_dict", {}).items()) if self.role == "master" else [])
        self.air.log.clear()
        t0 = s.now
        s.deadline = t0 + 3_000_000_000
        exc, ret = "none", 0
        try:
            ret = o.update()
        except sim.WatchdogExpired:
            exc = "Hang"
        except Exception as e:  # noqa
            exc = type(e).__name__
            chip.rx.clear()
        s.deadline = None
        dt = (s.now - t0) // 1000
        q1 = len(o.queue)
        sent = [p["data"] for p in self.air.log]
        sent_full = [dict(phys=list(p["addr"]), data=list(p["data"]), noack=not p["want_ack"]) for p in self.air.log]   # noack: no radio-level acknowledgement awaited
        qhead = dict(**{"from": -1}, to=-1, id=-1, type=-1, msg=[])
        first = True
        while o.available():
            fr = o.read()
            if first and q0 == 0:
                qhead = dict(**{"from": fr.header.from_node}, to=fr.header.to_node, id=fr.header.frame_id,
                             type=fr.header.message_type, msg=list(fr.message))
            first = False
        return dict(k="inj", role=self.role, level=self.level, addr=self.addr, raw=list(raw), exc=exc, queued=max(0, q1 - q0),
                    ntx=len(sent), sent=sent, dt=int(dt), bound=400000, left=(len(chip.rx) if exc == "none" else 0), cfg=cfg, ret=int(ret) if isinstance(ret, int) else -1,
                    sent_full=sent_full, qhead=qhead, prefix=0xCC, suffix=[0xC3, 0x3C, 0x33, 0xCE, 0x3E, 0xE3])


def dest_classes(addr, level):
    out = {"self": addr, "multicast": 0o100, "default": 0o4444, "invalid-digit": 0o60, "invalid-zero": 0o101,
           "five-digit": 0o11111 if addr == 0 else (addr | (1 << 12)) if level == 4 else 0o11111, "six-digit": 0o111111,
           "max": 0xFFFF, "lvl2-mc": 0o10, "lvl4-mc": 0o1000}
    if level < 4:
        out["child"] = addr | (2 << (3 * level))
    if level < 3:
        out["descendant"] = addr | (2 << (3 * level)) | (3 << (3 * (level + 1)))
    out["parent-side"] = 0o5 if addr != 0o5 else 0o4
    if level == 4:
        out["below-level-4"] = addr | (3 << 12)
    return out


def work(args):
    role, level, seed, types, lens, extra = args
    rng = random.Random(seed)
    nd = Node(role, level, seed)
    out = []
    dests = dest_classes(nd.addr if nd.addr != 0o4444 else 0o4444, level)
    fid = 0
    for typ in types:
        for (cls, to) in dests.items():
            for n in lens:
                fid = (fid + 1) & 0xFFFF
                frm = rng.choice([0o2, 0o12, 0o4444, 0, 0o5555, 0o60, 0o11111, 0xFFFF]) if rng.random() < 0.5 else rng.choice([0o2, 0o12, 0])
                raw = struct.pack("<HHHBB", frm, to, fid, typ, rng.randrange(256)) + bytes(rng.randrange(256) for _ in range(n))
                v = nd.feed(raw, rng.choice([0, 1, 2, 5]) if to == 0o100 else rng.choice([1, 2, 3, 4, 5]))
                v["cls"], v["typ"] = cls, typ
                out.append(v)
    for raw in extra:
        v = nd.feed(bytes(raw), rng.choice([0, 1, 5]))
        v["cls"], v["typ"] = "raw", -1
        out.append(v)
    if extra:
        # sequences: every ordered pair (and sampled triples) of a small set of telling frames waiting together in the FIFO
        me = nd.addr
        H = lambda frm, to, typ, n=2: struct.pack("<HHHBB", frm, to, rng.randrange(65536), typ, 5) + bytes([5, 0, 1, 2][:n])
        pool = [H(0o2, me, 0), H(0o2, 0o100, 196), H(0o2, 0o100, 198), H(0o2, 0o100, 195), H(0o2, 0o100, 194), H(0o2, me, 196),
                H(0o2, me, 198), H(0o2, me, 197), H(0o7, me, 0), H(0o7, 0o100, 1), H(0o2, 0o60, 0), H(0xFFFF, me, 196),
                H(0o7, me, 198), H(0o2, me, 148, 4), H(0o2, me, 150, 4), b"\x01\x02\x03", b"", H(0o2, 0o3 if me != 0o3 else 0o4, 65),
                H(0o12, me, 195), H(0o312, 0o100, 195), H(0o2, 0o6, 0), H(0o2, 0o17, 65)]   # requests relayed by level-2/3 nodes: the master's answer is routed and waits for a NETWORK_ACK while the next frames arrive
        seqs = [(a, b) for a in pool for b in pool]
        # three requests relayed by level-2/3 nodes waiting together: each update() serves one and still returns in time
        for sq in [(H(0o12, me, 195), H(0o312, 0o100, 195), H(0o22, me, 195)), (H(0o312, me, 195), H(0o12, me, 195), H(0o13, me, 195)),
                   (H(0o12, me, 195), H(0o13, me, 195), H(0o14, me, 195))]:
            out.append(nd.feed_seq(list(sq), [2, 2, 3], route_timeout=75))     # with the default route time-out
        seqs += [tuple(rng.choice(pool) for _ in range(3)) for _ in range(60)]
        for sq in seqs:
            out.append(nd.feed_seq(list(sq), [rng.choice([1, 2, 5]) for _ in sq]))
    return out


def validity_table(lo, hi):
    from circuitpython_nrf24l01.network.structs import is_address_valid
    return [1 if is_address_valid(a) else 0 for a in range(lo, hi)]


def run(chk):
    quick = chk.tier == "quick"
    chk.rule = ("validity table on all 65 536 values; injections: message types (quick: 40 incl. every system type; thorough: all "
                "256) x 12-14 destination classes (self, child, descendant, parent side, multicast, default, invalid digit, "
                "embedded zero, 5/6-digit, 0xFFFF, reserved) x message lengths (quick {0,1,2,24}; thorough 0..24) x roles "
                "{routing-only, network, mesh node, mesh master} x levels 0..4, valid and invalid origins, truncated frames "
                "0..7 bytes, truncated / oversized mesh payloads, random byte strings; distinct = injected frames")
    rng = random.Random(chk.seed + 15)
    sim.install(sim.Sched())
    vec = [dict(k="valid", base=b, bits=validity_table(b, b + 4096)) for b in range(0, 65536, 4096)]
    sys_types = [128, 130, 131, 148, 149, 150, 193, 194, 195, 196, 197, 198]
    types_q = sorted(set([0, 1, 64, 65, 127, 129, 191, 192, 199, 255] + sys_types + rng.sample(range(256), 18)))
    types = types_q if quick else list(range(256))
    lens = [0, 1, 2, 24] if quick else list(range(0, 25))
    jobs = []
    for role in ROLES:
        for level in range(5):
            if role == "master" and level:
                continue
            extra = [[rng.randrange(256) for _ in range(n)] for n in range(0, 8) for _ in range(3)]
            extra += [[rng.randrange(256) for _ in range(rng.randrange(8, 33))] for _ in range(60 if quick else 600)]
            # mesh payload edge cases addressed to this node: lookups / release / request with 0..4 payload bytes
            me = LEVEL_ADDR[level] if role != "master" else 0
            for typ in (196, 198, 197, 195, 128):
                for n in range(0, 5):
                    for frm in (0o2, 0o4444, 0, 0o4, 0o44, 0o444, 0o1234):
                        extra.append(list(struct.pack("<HHHBB", frm, me, 7, typ, rng.choice([0, 5, 200]))) + [rng.choice([0, 5, 200, 255]) for _ in range(n)])
            parts = 4 if not quick else 1
            for k in range(parts):
                jobs.append((role, level, chk.seed * 31 + len(jobs), types[k::parts], lens, extra if k == 0 else []))
    with ProcessPoolExecutor(16) as ex:
        for res in ex.map(work, jobs):
            vec += res
    chk.phase("inject")
    for v in vec:
        chk.case((v.get("role"), v.get("level"), tuple(v.get("raw", [v.get("base")])) if "raws" not in v else str(v["raws"])))
    chk.traces += len(vec)
    chk.sample({k: v for k, v in next(x for x in vec if x["k"] == "inj" and x["ntx"]).items()})
    verdicts, st = tlc.validate("TraceInject", "TraceInject", jsonable(vec), shard=4000, quiet=True, timeout=2400)
    chk.add_stats(st, "vectors judged")
    chk.phase("judge")
    seen = {}
    for v, vd in zip(vec, verdicts):
        if vd["clause"] != "ok":
            if v["k"] == "valid":
                key = "C15.ValidIff"
            else:
                key = "%s:%s:type%s:%s" % (vd["clause"], v["role"], v["typ"] if v["typ"] in (196, 197, 198, 195, 128, 194, 193) else "*",
                                           vd["detail"])
            seen.setdefault(key, (v, vd))
    for key, (v, vd) in seen.items():
        chk.violation(vd["clause"], key, dict(kind="inject", vector={k: x for k, x in v.items() if k != "bits"}), vd["detail"])
    chk.exhaustive = not quick
    chk.assumptions += ["forwards are ACKed by a phantom neighbour (the time bound is then about the node's own processing)",
                        "a joined mesh node is set up at its address the way renew_address() leaves it"]
