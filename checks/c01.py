"""C01 - link payload integrity: what send() is given is what the peer's read() returns.
Link.tla / TraceLink.tla judge executions of two real driver objects on the simulated air: every length 0..40 x
(dynamic | static 1..32) x receiving pipe 0..5 x buffer type, with seeded address width / data rate / CRC / channel /
ask_no_ack / SPI path / content, single sends, write() and list sends; the peer is drained through read() after every
call.  Rf24Send.tla (L2) model-checks exactly-once hand-off under free loss for the send algorithm."""
import random
from concurrent.futures import ProcessPoolExecutor

from harness import tlc, sim, link
from harness.ev import jsonable


def payload(n, k, rng):
    b = bytes([(n + 1) & 0xFF, k & 0xFF] + [rng.randrange(256) for _ in range(40)])[:n]
    return b


def scenario(args):
    mode, pipe, btype, seed, lens, tx_lite, rx_lite = args
    rng = random.Random(seed)
    mixed = isinstance(mode, str) and mode.startswith("mixed")     # static lengths first, then ack = True: pipe 0 is dynamic
    if mixed:
        mode = int(mode[5:])
    p0static = mode == "dyn-p0static"        # receiver: pipe 0 static, the addressed pipe (1..5) dynamic
    if p0static:
        mode = "dyn"
    cfg = dict(dyn=(mode == "dyn"), pl=(mode if mode != "dyn" else 32), pipe=pipe, ackpl=mixed, rx_p0_static=p0static, aw=rng.choice([3, 4, 5]),
               rate=rng.choice([1, 2, 250]), crc=rng.choice([0, 1, 2]), ch=rng.randrange(126), arc=rng.choice([0, 3, 15]),
               ard=rng.choice([250, 1500, 4000]))
    lp = link.LinkPair(cfg, tx_lite=tx_lite, rx_lite=rx_lite, tx_spidev=rng.random() < 0.5, rx_spidev=rng.random() < 0.5,
                       seed=seed)
    ev = []
    k = 0
    for n in lens:
        k += 1
        raw = payload(n, k, rng)
        buf = bytearray(raw) if btype == "bytearray" else raw
        nak = rng.random() < 0.3
        api = "write" if rng.random() < 0.15 else "send"
        pre = "sleep" if (tx_lite and rng.random() < 0.2) else None     # rf24_lite's write() wakes the radio up (in TX mode) by itself
        ev.append(lp.call(api, buf, ask_no_ack=nak, pre=pre))
        ev.append(lp.drain())
    # list sends (valid lengths for the mode)
    for _ in range(2):
        m = rng.choice([1, 2, 3])
        bufs = []
        for n_ in rng.sample(range(1, 33), m):       # distinct lengths: distinct first bytes, so distinct after truncation
            k += 1
            raw = payload(n_, k, rng)
            bufs.append(bytearray(raw) if btype == "bytearray" else raw)
        ev.append(lp.call("send", bufs if rng.random() < 0.5 else tuple(bufs)))
        ev.append(lp.drain())
    # streaming idiom: 1..5 payloads queued with write(write_only=True) before CE goes high (the TX FIFO holds 3)
    if not tx_lite:
        for m in rng.sample([1, 2, 3, 4, 5], 2):
            bufs = []
            for n_ in rng.sample(range(1, 33), m):
                k += 1
                raw = payload(n_, k, rng)
                bufs.append(bytearray(raw) if btype == "bytearray" else raw)
            # (sometimes the answers are queued while the radio still listens and the role is switched afterwards; with custom
            # ACK payloads enabled leaving RX mode discards the TX FIFO by design, so not there)
            ev.append(lp.stream(bufs, ask_no_ack=rng.random() < 0.3, while_listening=not cfg.get("ackpl") and rng.random() < 0.4))
            ev.append(lp.drain())
    return dict(cfg=lp.tla_cfg(), ev=ev, meta=dict(mode=mode, pipe=pipe, btype=btype, seed=seed, cfg=cfg))


def jobs_for(chk, tx_lite=False, rx_lite=False):
    quick = chk.tier == "quick"
    if quick:
        lens = [0, 1, 2, 23, 24, 31, 32, 33, 40]
        modes = ["dyn", 1, 2, 8, 31, 32]
    else:
        lens = list(range(0, 41))
        modes = ["dyn"] + list(range(1, 33))
    out = []
    for mode in modes:
        for pipe in range(6):
            for bt in ("bytes", "bytearray"):
                out.append((mode, pipe, bt, hash((chk.seed, str(mode), pipe, bt, tx_lite, rx_lite)) & 0x7FFFFFFF, lens,
                            tx_lite, rx_lite))
    if not rx_lite:
        for pipe in ((1, 5) if quick else (1, 2, 3, 4, 5)):
            for bt in ("bytes", "bytearray"):
                out.append(("dyn-p0static", pipe, bt, hash((chk.seed, "p0static", pipe, bt, tx_lite)) & 0x7FFFFFFF, lens, tx_lite, False))
    if not tx_lite and not rx_lite:
        for pl in ([5, 32] if quick else [1, 5, 16, 31, 32]):
            for bt in ("bytes", "bytearray"):
                out.append(("mixed%d" % pl, 0, bt, hash((chk.seed, "mixed", pl, bt)) & 0x7FFFFFFF, lens, False, False))
    return out


def judge(chk, traces, what):
    verdicts, st = tlc.validate("TraceLink", "TraceLink", jsonable([dict(cfg=t["cfg"], ev=t["ev"]) for t in traces]),
                                shard=400, timeout=2400, multi=True)
    chk.add_stats(st, what)
    found = {}
    for t, vs in zip(traces, verdicts):
        for v in vs:
            e = t["ev"][v["at"] - 1]
            src = t["ev"][v["at"] - 2] if e["k"] == "drain" else e
            kind = "%s/%s/%s" % ("dyn" if t["cfg"]["dyn"] else "static", "lite" if t["cfg"]["lite_tx"] else "full",
                                 type_of(src, t))
            key = "%s:%s:%s" % (v["clause"], kind, v["detail"])
            if key not in found:
                found[key] = (t, v, src)
    for key, (t, v, src) in found.items():
        chk.violation(v["clause"], key, dict(kind="link", meta=t.get("meta"), cfg=t["cfg"], failing_event=src, at=v["at"]),
                      v["detail"])


def type_of(e, t):
    if e["k"] == "send":
        n = len(e["buf"])
        pl = t["cfg"]["pl"]
        cls = "len0" if n == 0 else "len>32" if n > 32 else ("short" if (not t["cfg"]["dyn"] and n < pl) else
                                                             "long" if (not t["cfg"]["dyn"] and n > pl) else "fit")
        return "%s(%s,%s)" % (e["api"], cls, t.get("meta", {}).get("btype", "?"))
    return e["k"]


def run(chk):
    chk.rule = ("one trace per (payload-length mode, receiving pipe, buffer type): sends of every length in the tier's list "
                "with unique contents, ask_no_ack / write() / list sends mixed in by seed, seeded address width, rate, CRC, "
                "channel, retry setup and SPI path; the peer is drained with read() after every call; distinct = sends")
    r = tlc.mc("Rf24Send", "Rf24Send", timeout=900)
    chk.add_tlc(r, "L2 send algorithm over free loss: peer receives each acknowledged payload exactly once")
    jobs = jobs_for(chk)
    with ProcessPoolExecutor(16) as ex:
        traces = list(ex.map(scenario, jobs, chunksize=4))
    chk.phase("exec")
    for t in traces:
        for e in t["ev"]:
            if e["k"] in ("send", "sendlist"):
                chk.case((t["meta"]["mode"], t["meta"]["pipe"], t["meta"]["btype"], e["api"], e["k"], len(e.get("buf", e.get("bufs")))))
    chk.traces += len(traces)
    chk.sample(dict(cfg=traces[0]["cfg"], events=traces[0]["ev"][:2]))
    judge(chk, traces, "link traces")
    chk.phase("judge")
    chk.exhaustive = chk.tier != "quick"
    chk.assumptions += ["loss-free medium, ACK always arrives inside the ARD window", "both ends configured through the public API "
                        "with the same channel, rate, CRC, address width and payload-length mode"]
