"""C10 - FIFO and status accessors report the radio's true state.
Nrf24Fifo.tla: chip-level FIFO/STATUS model (TLC: invariants the accessors rely on) + the L1 meaning of every accessor;
TraceFifo.tla judges accessor results/effects of the real RF24 (or rf24_lite) against the radio double's true FIFOs,
STATUS, OBSERVE_TX and IRQ line after enumerated traffic prefixes and in random depth-40 histories."""
import itertools
import random
from concurrent.futures import ProcessPoolExecutor

from harness import tlc, sim, link
from harness.ev import jsonable

TRAFFIC = [("peer", 0, 1), ("peer", 1, 5), ("peer", 5, 32), ("peer", 1, 32), ("peer", 1, 0), ("tx_ok",), ("tx_fail",), ("tx_retry_ok",),
           ("write_only",), ("load_ack",)]
# ("peer", 1, 0): an empty (zero-length) payload, legal with dynamic payload lengths
BOOL3 = list(itertools.product([True, False], repeat=3))
ACCESS = ([("available",), ("update",), ("pipe",), ("any",), ("tx_full",), ("irq_dr",), ("irq_ds",), ("irq_df",), ("read",),
           ("flush_rx",), ("flush_tx",), ("last_tx_arc",)]
          + [("fifo", tx, ce) for tx in (False, True) for ce in (None, True, False)]
          + [("clear_status_flags",) + b for b in BOOL3] + [("interrupt_config",) + b for b in BOOL3])
TAIL = [("update",), ("pipe",), ("any",), ("available",), ("tx_full",), ("irq_dr",), ("irq_ds",), ("irq_df",),
        ("fifo", False, None), ("fifo", True, None), ("fifo", False, True), ("fifo", True, False), ("last_tx_arc",)]


def truth(chip):
    c = chip.r[0]
    return dict(rx=[dict(pipe=p, data=list(d)) for (p, d) in chip.rx], ntx=len(chip.tx), dr=bool(chip.r[7] & 0x40),
                ds=bool(chip.r[7] & 0x20), df=bool(chip.r[7] & 0x10), arc=chip.arc_cnt,
                mask=[not c & 0x40, not c & 0x20, not c & 0x10], irq=chip.irq_low(), last=chip.last_st)


def tag(r):
    if r is None:
        return {"t": "none", "v": 0}
    if isinstance(r, bool):
        return {"t": "bool", "v": r}
    if isinstance(r, int):
        return {"t": "int", "v": r}
    if isinstance(r, (bytes, bytearray)):
        return {"t": "bytes", "v": list(r)}
    return {"t": "other", "v": 0}


class Dut:
    def __init__(self, dyn, lite, seed):
        # dyn = "mixed": per-pipe payload-length modes - pipe 0 static (3 bytes), the other pipes dynamic
        self.mixed = dyn == "mixed"
        dyn = bool(dyn)
        self.lp = link.LinkPair(dict(dyn=dyn, pl=7, pipe=1, arc=2, ard=250), tx_lite=lite, rx_lite=False, seed=seed)
        lp = self.lp
        self.nrf, self.chip, self.air, self.lite = lp.tx, lp.tchip, lp.air, lite
        aw = 5
        # DUT also receives on pipes 0, 1, 5
        self.nrf.open_rx_pipe(1, b"\x51\x52\x53\x54\x55")
        self.nrf.open_rx_pipe(5, b"\x65")
        self.nrf.open_rx_pipe(0, b"\x41\x42\x43\x44\x45")
        if not dyn and not lite:
            self.nrf.set_payload_length(1, 0)
            self.nrf.set_payload_length(5, 1)
            self.nrf.set_payload_length(32, 5)
        if self.mixed:
            self.nrf.set_dynamic_payloads(False, 0)
            self.nrf.set_payload_length(3, 0)
        self.dyn = dyn
        self.nrf.listen = True
        lp.s.advance(300_000)
        self.k = 0

    def traffic(self, op):
        nrf, chip, lp = self.nrf, self.chip, self.lp
        before = truth(chip)
        self.k += 1
        if op[0] == "peer":
            pipe, n = op[1], op[2]
            if not self.dyn or (self.mixed and pipe == 0):
                n = chip.r[0x11 + pipe]
            addr = chip.pipe_addr(pipe)
            self.air.phantom_tx(addr, chip.r[5], chip.aw(), chip.rate(), chip.crc_len(), bytes([(self.k + i) & 0xFF for i in range(n)]),
                                pid=self.k & 3)
        elif op[0] in ("tx_ok", "tx_fail", "tx_retry_ok"):
            nrf.listen = False
            nrf.open_tx_pipe(link.rx_address(1, 5))   # pipe 0 is also a user RX pipe here: re-arm it for ACKs
            self.air.fates = {"tx_ok": [], "tx_fail": list("PPP"), "tx_retry_ok": list("PD")}[op[0]]
            try:
                with sim.guard(lp.s, 2_000_000_000):
                    nrf.send(bytes([0xEE, self.k]) + bytes(5 if not self.dyn else 1 if self.mixed else 0), send_only=True)
            except Exception:  # noqa
                pass
            lp.settle()
            self.air.fates = []
            nrf.listen = True
            lp.s.advance(300_000)
        elif op[0] == "cfg":
            # link-neutral configuration touches between traffic and the accessors: re-assigning the value in effect, reading
            # attributes; none of them may disturb FIFOs, flags, the IRQ mask or what the accessors report afterwards
            try:
                nrf.pa_level = nrf.pa_level
                nrf.arc = nrf.arc
                if not self.lite:
                    nrf.crc = nrf.crc
                    _ = nrf.data_rate, nrf.address_length, nrf.ack, nrf.dynamic_payloads, nrf.auto_ack
                    _ = [nrf.get_auto_ack(p) for p in range(6)], [nrf.get_dynamic_payloads(p) for p in range(6)]
                    _ = nrf.allow_ask_no_ack        # (last: nothing after it refreshes the driver's cached view)
            except Exception:  # noqa
                pass
        elif op[0] == "write_only":
            try:
                nrf.write(bytes([0xDD, self.k]), write_only=True)
            except Exception:  # noqa
                pass
        elif op[0] == "load_ack":
            try:
                nrf.load_ack(bytes([0xAC, self.k]), 1)
            except Exception:  # noqa
                pass
        return dict(op="traffic", what=list(map(str, op)), pre=before, post=truth(chip), ret=tag(None))

    def access(self, op):
        nrf, chip = self.nrf, self.chip
        pre = truth(chip)
        ev = dict(op=op[0])
        try:
            if op[0] == "fifo":
                r = nrf.fifo(op[1], op[2])
                ev["tx"], ev["check"] = op[1], "none" if op[2] is None else "empty" if op[2] else "full"
            elif op[0] in ("clear_status_flags", "interrupt_config"):
                r = getattr(nrf, op[0])(*op[1:])
                ev["a"], ev["b"], ev["c"] = op[1:]
            elif op[0] in ("pipe", "tx_full", "irq_dr", "irq_ds", "irq_df", "last_tx_arc"):
                r = getattr(nrf, op[0])
            else:
                r = getattr(nrf, op[0])()
            if op[0] in ("flush_rx", "flush_tx", "clear_status_flags", "interrupt_config"):
                r = None
        except Exception as e:  # noqa
            r = "exc:" + type(e).__name__
        ev.update(pre=pre, post=truth(chip), ret=tag(r))
        return ev


def scenario(args):
    dyn, lite, prefix, acc, seed = args
    d = Dut(dyn, lite, seed)
    ev = [d.traffic(op) for op in prefix]
    for a in acc:
        ev.append(d.access(a))
    return dict(ev=ev, meta=dict(dyn=dyn, lite=lite, prefix=[list(map(str, p)) for p in prefix], acc=[list(map(str, a)) for a in acc]))


def random_history(args):
    dyn, lite, seed = args
    rng = random.Random(seed)
    d = Dut(dyn, lite, seed)
    ev, ops = [], []
    for _ in range(40):
        if rng.random() < 0.35:
            op = rng.choice(TRAFFIC + [("cfg",), ("cfg",)])
            ev.append(d.traffic(op))
        else:
            op = rng.choice([a for a in ACCESS if not (lite and a[0] == "last_tx_arc")])
            ev.append(d.access(op))
        ops.append(list(map(str, op)))
    return dict(ev=ev, meta=dict(dyn=dyn, lite=lite, ops=ops))


def build(chk, lite=False):
    quick = chk.tier == "quick"
    jobs = []
    depth = 2 if quick else 3
    acc = [a for a in ACCESS if not (lite and a[0] == "last_tx_arc")]
    tail = [a for a in TAIL if not (lite and a[0] == "last_tx_arc")]
    for dyn in (True, False) if lite else (True, False, "mixed"):
        for n in range(0, depth + 1):
            for prefix in itertools.product(TRAFFIC, repeat=n):
                for a in acc:
                    jobs.append((dyn, lite, prefix, [a] + tail, hash((chk.seed, dyn, prefix, a)) & 0xFFFFFF))
    rnd = [(dyn, lite, chk.seed * 7 + i) for i in range(100 if quick else 3000) for dyn in ((True, False) if lite else (True, False, "mixed"))]
    return jobs, rnd


def run(chk, lite=False):
    chk.rule = ("traffic prefixes (peer payloads on pipes 0/1/5 of different lengths, successful / failed / retried local "
                "transmissions, write-only loads, ACK payload loads) up to depth 2 (thorough 3) x every accessor x an "
                "observation tail, in dynamic, static and per-pipe mixed (pipe 0 static, others dynamic) payload modes; plus random depth-40 histories; distinct = traces")
    r = tlc.mc("Nrf24Fifo", timeout=600)
    chk.add_tlc(r, "chip FIFO/STATUS model invariants")
    if not lite:
        # keeping the double honest: every edge of the ESB chip model replayed on harness/sim.py (exit 2 on disagreement)
        from checks import chipconf
        chipconf.conformance(chk, "Nrf24Chip_quick" if chk.tier == "quick" else "Nrf24Chip")
        chk.phase("double conformance")
    jobs, rnd = build(chk, lite)
    with ProcessPoolExecutor(16) as ex:
        traces = list(ex.map(scenario, jobs, chunksize=32)) + list(ex.map(random_history, rnd, chunksize=8))
    chk.phase("exec")
    chk.traces += len(traces)
    for t in traces:
        chk.case(str(t["meta"]))
    chk.sample(dict(meta=traces[200]["meta"], event=traces[200]["ev"][-1]))
    verdicts, st = tlc.validate("TraceFifo", "TraceFifo", jsonable([dict(ev=t["ev"]) for t in traces]), shard=1500,
                                timeout=2400, multi=True)
    chk.add_stats(st, "accessor traces")
    chk.phase("judge")
    found = {}
    for t, vs in zip(traces, verdicts):
        for v in vs:
            e = t["ev"][v["at"] - 1]
            key = "%s:%s:%s" % (v["clause"], e["op"], v["detail"])
            if key not in found or len(t["ev"]) < len(found[key][0]["ev"]):
                found[key] = (t, v, e)
    for key, (t, v, e) in found.items():
        chk.violation(v["clause"], key, dict(kind="fifo", meta=t["meta"], at=v["at"], failing_event=e), v["detail"])
    chk.assumptions += ["the flag attributes (pipe, tx_full, irq_*) describe the STATUS byte clocked out by the most recent SPI "
                        "transaction; after update() that is the present state",
                        "IRQ pin = active-low OR of the latched events that are not masked in CONFIG"]
