"""C04 - tree routing connects all 781 addresses; pipe addresses never collide.
NetAddr.tla: spec-level all-pairs walk (MC).  NetAddrTable.tla: the same clauses model-checked over tables recorded
from the implementation through public behaviour (pipe registers after construction, TX address of the first
transmission of write()/multicast() with a phantom acceptor)."""
import json
import os
import random
import re
from concurrent.futures import ProcessPoolExecutor

from harness import tlc, sim


def nodes():
    out = [0]
    for lvl in range(1, 5):
        out += [a for a in range(8 ** (lvl - 1), 8 ** lvl) if all(1 <= (a >> (3 * k)) & 7 <= 5 for k in range(lvl))]
    return out


def gather(args):
    """runs in a worker: returns per-source observations"""
    srcs, dsts, prefix, suffix, mcast, mcsrc, lvls = args
    s = sim.Sched()
    air = sim.Air(s)
    sim.install(s)
    air.acceptor = lambda c, p: b""
    air.collisions = False
    from circuitpython_nrf24l01.rf24_network import RF24Network
    from circuitpython_nrf24l01.network.structs import RF24NetworkHeader, RF24NetworkFrame
    out = []
    for a in srcs:
        c = sim.Chip(air, "n")
        n = RF24Network(sim.FakeSpiDev(c), 0, sim.Pin(c), a)
        if prefix is not None or not mcast:
            if prefix is not None:
                n.address_prefix = bytearray([prefix])
                n.address_suffix = bytearray(suffix)
            n.allow_multicast = mcast
            n.node_address = a  # public way to re-derive the pipe addresses
        if lvls is not None:
            n.multicast_level = lvls[a]         # a node may listen to another level's multicasts; routing must not care
        phys = [list(c.addr[0x0A]), list(c.addr[0x0B])] + [[c.r[0x0A + p]] + list(c.addr[0x0B][1:]) for p in range(2, 6)]
        en = c.r[2]
        tx = {}
        for d in dsts:
            if d == a:
                continue
            air.log.clear()
            try:
                with sim.guard(s, 3_000_000_000):
                    n.write(RF24NetworkFrame(RF24NetworkHeader(d, 0), b"x"))
            except Exception as e:  # noqa
                tx[d] = None
                continue
            tx[d] = air.log[0]["addr"] if air.log else None
        mc = None
        if a in mcsrc:
            mc = []
            for lvl in range(5):
                air.log.clear()
                try:
                    with sim.guard(s, 3_000_000_000):
                        n.multicast(b"x", 0, lvl)
                except Exception:  # noqa
                    pass
                mc.append(air.log[0]["addr"] if air.log else None)
        air.chips.remove(c)
        out.append((a, phys, en, tx, mc, n.multicast_level))
    return out


def build_tables(addrs, dsts, prefix, suffix, mcast, mcsrc, ex, lvls=None):
    chunks = [addrs[i::64] for i in range(64)]
    rows = {}
    for res in ex.map(gather, [(c, dsts, prefix, suffix, mcast, set(mcsrc), lvls) for c in chunks]):
        for (a, phys, en, tx, mc, lv) in res:
            rows[a] = (phys, en, tx, mc, lv)
    A, aidx = [], {}

    def intern(b):
        if b is None:
            return 0
        t = tuple(b)
        if t not in aidx:
            A.append(list(t))
            aidx[t] = len(A)
        return aidx[t]
    index = {a: i + 1 for i, a in enumerate(addrs)}
    phys = [[intern(p) for p in rows[a][0]] for a in addrs]
    tx = [[intern(rows[a][2].get(d)) if d in rows[a][2] else 0 for d in addrs] for a in addrs]
    mc = [[intern(x) for x in rows[a][3]] if rows[a][3] is not None else [0] * 5 for a in addrs]
    ownN, ownP = [0] * len(A), [0] * len(A)
    for a in addrs:
        for p in (range(1, 6) if mcast else range(0, 6)):
            k = phys[index[a] - 1][p] - 1
            if ownN[k] == 0:
                ownN[k], ownP[k] = index[a], p
    return dict(addrs=addrs, dsts=[index[d] for d in dsts], A=A, phys=phys, en=[rows[a][1] for a in addrs], tx=tx, mc=mc,
                mcsrc=[index[a] for a in mcsrc], ownN=ownN, ownP=ownP, mcast=mcast, lvl=[rows[a][4] for a in addrs],
                prefix=0xCC if prefix is None else prefix,
                suffix=[0xC3, 0x3C, 0x33, 0xCE, 0x3E, 0xE3] if suffix is None else list(suffix))


def run(chk):
    quick = chk.tier == "quick"
    chk.rule = ("tables recorded from the implementation for all 781 nodes (pipe registers) and (source, destination) "
                "pairs (first TX address of write()); TLC walks every pair over the implementation's own next-hop "
                "choices and evaluates the static clauses; distinct = (variant, source, destination) pairs walked")
    r = tlc.mc("NetAddrWalk", "NetAddrWalk" if not quick else "NetAddrWalk_quick", timeout=1500)
    chk.add_tlc(r, "spec-level all-pairs walk")
    addrs = nodes()
    assert len(addrs) == 781
    rng = random.Random(chk.seed + 4)
    # destinations covering every relation class for quick; everything for thorough
    picks = sorted(set([0, 0o1, 0o5, 0o11, 0o15, 0o51, 0o55, 0o111, 0o151, 0o515, 0o555, 0o1111, 0o1511, 0o5151, 0o5555,
                        0o2, 0o32, 0o432, 0o5432, 0o1234, 0o234, 0o34, 0o4] + rng.sample(addrs, 25)))
    variants = [("default bytes, multicast on", None, None, True, addrs)]
    pool = [b for b in range(1, 255) if b not in (0x55, 0xAA)]
    for k in range(1 if quick else 6):
        bs = rng.sample(pool, 7)
        variants.append(("random distinct bytes #%d, multicast on" % k, bs[0], bs[1:], True, addrs if not quick else picks))
    variants.append(("default bytes, multicast off", None, None, False, addrs if not quick else picks))
    lv = {a: rng.randrange(5) for a in addrs}
    variants.append(("default bytes, multicast on, multicast_level re-assigned per node", None, None, True, addrs if not quick else picks, lv))
    if not quick:
        bs = rng.sample(pool, 7)
        variants.append(("random distinct bytes, multicast off", bs[0], bs[1:], False, addrs))
    mcsrc = sorted(set([0, 0o1, 0o2, 0o5, 0o11, 0o21, 0o15, 0o111, 0o321, 0o1111, 0o5432] + (rng.sample(addrs, 40) if quick else addrs)))
    wd = tlc.workdir("c04")
    with ProcessPoolExecutor(16) as ex:
        for vi, var in enumerate(variants):
            name, prefix, suffix, mcast, dsts = var[:5]
            tab = build_tables(addrs, dsts, prefix, suffix, mcast, mcsrc, ex, var[5] if len(var) > 5 else None)
            path = os.path.join(wd, "table_%d.json" % vi)
            with open(path, "w") as f:
                json.dump(tab, f, separators=(",", ":"))
            rs = tlc.run("NetAddrStatic", "NetAddrStatic", wd=os.path.join(wd, "st%d" % vi), workers=1, timeout=900,
                         env={"TABLE_FILE": path})
            clauses = dict(re.findall(r'^"CLAUSE (\S+) (TRUE|FALSE)"$', rs["stdout"], re.M))
            if len(clauses) < 6:
                raise tlc.TlcError("static clause evaluation failed:\n" + rs["stdout"][-3000:])
            detail = re.findall(r'^"DETAIL (\S+) (.*)"$', rs["stdout"], re.M)
            for cl, v in clauses.items():
                chk.case(("static", vi, cl))
                if v == "FALSE":
                    if cl.startswith("drift."):
                        chk.note("model drift (%s): %s" % (name, cl))
                        continue
                    d = dict(detail)
                    if cl == "C04.McastToLevel":
                        classes = {}
                        for a, lv in tlc.parse_value(d.get("badmc", "{}")):
                            lvl_addr = 0 if lv == 0 else 8 ** (lv - 1)
                            k = "explicit-level-4" if lv == 4 else "own-address-equals-level-address" if lvl_addr == a \
                                else "%s->level%d" % (oct(a), lv)
                            classes.setdefault(k, []).append("%s->L%d" % (oct(a), lv))
                        for k, ex_ in classes.items():
                            chk.violation(cl, cl + ":" + k, dict(kind="table", variant=name, table=path, examples=sorted(ex_)[:8]),
                                          "multicast not transmitted to the level's address: " + ", ".join(sorted(ex_)[:6]))
                    else:
                        chk.violation(cl, cl, dict(kind="table", variant=name, table=path))
            rw = tlc.run("NetAddrTable", "NetAddrTable", wd=os.path.join(wd, "w%d" % vi), workers=16, timeout=1500,
                         env={"TABLE_FILE": path})
            chk.add_tlc(rw, "walk over implementation tables: " + name)
            if "violated" in rw:
                cex = rw.get("cex", [])
                st = tlc.parse_state(cex[-1][1]) if cex else {}
                where = "src=%s cur=%s dst=%s" % tuple(oct(addrs[st[k] - 1]) if k in st else "?" for k in ("si", "ci", "di"))
                chk.violation("C04." + rw["violated"].replace("C04_", ""), "C04.%s:%s" % (rw["violated"].replace("C04_", ""), where),
                              dict(kind="table", variant=name, table=path, state=st), where)
            elif not rw["ok"]:
                raise tlc.TlcError(rw["stdout"][-2000:])
            n_pairs = len(addrs) * len(dsts) - len(dsts)
            chk.traces += n_pairs
            chk.case(n=n_pairs)
            chk.distinct.update((vi, i) for i in range(n_pairs)) if n_pairs < 50000 else chk.distinct.update((vi, i) for i in range(50000))
            chk.extra.setdefault("pairs_per_variant", {})[name] = n_pairs
            if vi == 0:
                chk.sample(dict(variant=name, node=oct(addrs[100]), pipes=[tab["A"][i - 1] for i in tab["phys"][100]],
                                tx_to_0o5=tab["A"][tab["tx"][100][addrs.index(0o5)] - 1]))
            if chk.violations:
                import shutil
                shutil.copy(path, os.path.join(chk.wd, os.path.basename(path)))
            os.remove(path)
    chk.exhaustive = not quick
    chk.assumptions += ["phantom acceptor ACKs every transmission so that only the first transmission of each write() is observed",
                        "interning of 5-byte addresses by the harness is an equality-preserving renaming; owner claims are verified by TLC"]
