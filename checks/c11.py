"""C11 - header and fragment wire formats are stable and TMRh20-compatible.
NetFrame.tla is the independent codec (MC: reassembly inverts fragmentation for every length 0..144);
TraceNetFrame.tla judges vectors recorded from the code: pack()/unpack() results and the frames one write() puts on
the simulated air."""
import random
import struct
from concurrent.futures import ProcessPoolExecutor

from harness import tlc, sim
from harness.ev import jsonable


def hdr_vectors(quick, rng):
    from circuitpython_nrf24l01.network.structs import RF24NetworkHeader, RF24NetworkFrame
    out = []

    def one(fr, to, fid, ty, res, strtype=False):
        h = RF24NetworkHeader(to, chr(ty) if strtype else ty)
        h.from_node, h.frame_id, h.reserved = fr, fid, res
        if h.to_node != to:
            h.to_node = to
        p = h.pack()
        u = RF24NetworkHeader()
        ok = u.unpack(p)
        f = {"from": fr, "to": to, "id": fid, "type": ty, "reserved": res}
        uu = {"from": u.from_node, "to": u.to_node, "id": u.frame_id, "type": u.message_type, "reserved": u.reserved}
        out.append(dict(kind="hdr", f=f, p=list(p), u=uu if ok else {k: -1 for k in f}))
    addrs = [0, 1, 0o5555, 0o4444, 0o7777, 0xFFF, 0o100, 0o10, 0o1000, 0o1234]
    ids = [0, 1, 255, 256, 0x1234, 0xFF00, 65535]
    # all 256 types x all 256 reserved values
    for ty in range(256):
        for res in range(256):
            one(0o1234, 0o321, 0xBEEF, ty, res)
    combos = [(a, b, i) for a in addrs for b in addrs for i in ids]
    if quick:
        combos = rng.sample(combos, 150) + [(0xFFF, 0xFFF, 65535), (0, 0, 0)]
    for (a, b, i) in combos:
        for ty, res in [(0, 0), (255, 255), (rng.randrange(256), rng.randrange(256))]:
            one(a, b, i, ty, res)
    for ch in range(32, 127):  # one-character string types
        one(0o1, 0o2, 7, ch, 0, strtype=True)
    # frame id counter incl. wrap-around: ids are consecutive modulo 2^16
    h0 = RF24NetworkHeader(0, 0)
    prev = h0.frame_id
    wrap = []
    for _ in range(70000 if not quick else 66000):
        h = RF24NetworkHeader(0, 0)
        wrap.append((h.frame_id - prev) & 0xFFFF)
        prev = h.frame_id
    # frames
    for n in list(range(0, 26)) + [31, 32, 100, 144]:
        msg = bytes(rng.randrange(256) for _ in range(n))
        h = RF24NetworkHeader(0o12, 65)
        h.from_node, h.frame_id, h.reserved = 0o5, 0x1234, 3
        fr = RF24NetworkFrame(h, bytearray(msg) if n % 2 else msg)
        p = fr.pack()
        g = RF24NetworkFrame()
        ok = g.unpack(p)
        f = {"from": 0o5, "to": 0o12, "id": 0x1234, "type": 65, "reserved": 3}
        uu = {"from": g.header.from_node, "to": g.header.to_node, "id": g.header.frame_id,
              "type": g.header.message_type, "reserved": g.header.reserved}
        out.append(dict(kind="frame", f=f, msg=list(msg), p=list(p), u=uu, umsg=list(g.message) if ok else [-1]))
    for n in range(8):
        buf = bytes(range(n))
        out.append(dict(kind="short", n=n, accepted=bool(RF24NetworkHeader().unpack(buf)) or bool(RF24NetworkFrame().unpack(buf))))
    return out, wrap


def write_vectors(args):
    lens, types, seed = args
    rng = random.Random(seed)
    s = sim.Sched()
    air = sim.Air(s)
    sim.install(s)
    air.acceptor = lambda c, p: b""
    air.collisions = False
    from circuitpython_nrf24l01.rf24_network import RF24Network
    from circuitpython_nrf24l01.network.structs import RF24NetworkHeader, RF24NetworkFrame
    c = sim.Chip(air, "n")
    node = RF24Network(sim.FakeSpiDev(c), 0, sim.Pin(c), 0o1)
    if lens and lens[0] % 2:
        # half of the nodes had fragmentation switched off and on again before they send
        node.fragmentation = False
        node.fragmentation = True
    out = []
    for n in lens:
        for ty in types:
            msg = bytes((i * 7 + n + ty) & 0xFF for i in range(n))
            strtype = ty == 84
            h = RF24NetworkHeader(0o11, "T" if strtype else ty)
            res0 = h.reserved
            before = h.message_type
            air.log.clear()
            buf = bytearray(msg) if n % 2 else msg
            with sim.guard(s, 3_000_000_000):
                ok = node.write(RF24NetworkFrame(h, buf))
            out.append(dict(kind="write", **{"from": 0o1}, to=0o11, id=h.frame_id, type=ty, res0=res0, msg=list(msg),
                            air=[p["data"] for p in air.log], ret=bool(ok), type_before=before, type_after=h.message_type,
                            buf_intact=bytes(buf) == msg, exc="none", routed=False))
    # routed ack-type writes (0o1 -> 0o2 via the master): the NETWORK_ACK arrives while write() waits for it - the frame the
    # node receives meanwhile must not show through the caller's header; also a one-character string assigned to the
    # attribute after construction (documented) must be sendable
    def acc(chip, pkt):
        d = pkt["data"]
        if len(d) >= 8 and (64 < d[6] < 148 or (d[6] == 150 and 64 < d[7] < 192)):      # an ack-type message is complete at the far end
            ack = bytes(d[:2]) + bytes(d[:2]) + bytes(d[4:6]) + bytes([193, d[7]]) + bytes(d[8:])
            s.at(s.now + 3_000_000, lambda t: c.inject(5, ack))
        return b""
    air.acceptor = acc
    for n in ([0, 5, 24, 60] if len(types) <= 5 else [0, 1, 5, 24, 25, 60, 144]):
        for (ty, how) in ((65, "int"), (127, "int"), (84, "ctor"), (84, "attr"), (0, "int")):
            msg = bytes((i * 11 + n + ty) & 0xFF for i in range(n))
            h = RF24NetworkHeader(0o2, "T" if how == "ctor" else ty)
            if how == "attr":
                h.message_type = "T"
            res0, id0 = h.reserved, h.frame_id
            before = 84 if how == "attr" else h.message_type
            air.log.clear()
            exc, ok = "none", False
            try:
                with sim.guard(s, 3_000_000_000):
                    ok = node.write(RF24NetworkFrame(h, msg))
            except Exception as e:  # noqa
                exc = type(e).__name__
            after = h.message_type if not isinstance(h.message_type, str) else ord(h.message_type[0])
            out.append(dict(kind="write", **{"from": 0o1}, to=0o2, id=id0, type=ty, res0=res0, msg=list(msg),
                            air=[p["data"] for p in air.log], ret=bool(ok), type_before=before, type_after=after,
                            buf_intact=True, exc=exc, routed=True))
            while node.available():
                node.read()
    air.acceptor = lambda c_, p_: b""
    # aborted fragmented sends: fragment k is never acknowledged (every attempt lost)
    for n in ([60, 144] if len(types) <= 5 else [49, 60, 100, 144]):
        nfr = (n + 23) // 24
        for kk in range(1, nfr + 1):
            ty = 84
            msg = bytes((i * 3 + n) & 0xFF for i in range(n))
            h = RF24NetworkHeader(0o11, "T")
            res0, before = h.reserved, h.message_type
            want = nfr - kk + 1           # the fragment counter of the k-th fragment (the last one carries the type)
            air.fate_fn = (lambda pkt, want=want, last=(kk == nfr): "P" if (len(pkt["data"]) >= 8 and (
                (pkt["data"][6] == 150) if last else (pkt["data"][6] in (148, 149) and pkt["data"][7] == want))) else "D")
            air.log.clear()
            with sim.guard(s, 5_000_000_000):
                ok = node.write(RF24NetworkFrame(h, msg))
            air.fate_fn = None
            out.append(dict(kind="abort", **{"from": 0o1}, to=0o11, id=h.frame_id, type=ty, res0=res0, msg=list(msg),
                            air=[p["data"] for p in air.log if p["fate"] != "P"], ret=bool(ok), type_before=before,
                            type_after=h.message_type, lost_fragment=kk))
    return out


def run(chk):
    quick = chk.tier == "quick"
    chk.rule = ("vectors recorded from the code and judged by TLC with the independent NetFrame.tla codec: all 256 types x "
                "256 reserved values, address/id combinations, string types, frames of 0..144 bytes, short buffers, and "
                "the on-air frame sequence of write() for every length 0..144 x types; distinct = vectors")
    r = tlc.mc("NetFrameMC", timeout=900)
    chk.add_tlc(r, "reassembly inverts fragmentation for all lengths 0..144 (specification)")
    rng = random.Random(chk.seed + 11)
    sim.install(sim.Sched())
    vec, wrap = hdr_vectors(quick, rng)
    if set(wrap) != {1}:
        chk.violation("C11.IdCounter", "C11.IdCounter", dict(kind="ids", deltas=sorted(set(wrap))[:5]),
                      "consecutive headers do not carry consecutive ids modulo 2^16")
    types = [0, 1, 65, 127, 84] if quick else [0, 1, 2, 64, 65, 66, 100, 126, 127, 84]
    lens = list(range(0, 145))
    with ProcessPoolExecutor(16) as ex:
        for res in ex.map(write_vectors, [(lens[i::16], types, chk.seed) for i in range(16)]):
            vec += res
    for v in vec:
        chk.case((v["kind"], str(v.get("f") or (v.get("type"), len(v.get("msg", []))) or v.get("n"))))
        pass    # (results that contradict the scripted medium are judged by the monitor, not asserted here)
    chk.traces += len(vec)
    chk.sample(next(v for v in vec if v["kind"] == "hdr"))
    w = next(v for v in vec if v["kind"] == "write" and len(v["msg"]) == 30)
    chk.sample(dict(kind="write", type=w["type"], msg_len=30, air=w["air"]))
    verdicts, st = tlc.validate("TraceNetFrame", "TraceNetFrame", jsonable(vec), shard=9000, quiet=True, timeout=1500)
    chk.add_stats(st, "vectors judged by TraceNetFrame")
    seen = {}
    for v, vd in zip(vec, verdicts):
        if vd["clause"] != "ok":
            seen.setdefault(vd["clause"], v)
    for cl, v in seen.items():
        chk.violation(cl, cl, dict(kind="vector", vector=v))
    chk.exhaustive = True
    chk.assumptions += ["little-endian host (struct native order 'HHHBB')", "addresses within 12 bits, ids within 16 bits"]
