"""C06 - reassembly never delivers a message that was not sent in full.
Reassembly.tla: reference reassembler model-checked against the clauses; ReassemblyGen.tla: TLC enumerates every
delivery pattern to the bound; each is replayed on the real FrameQueueFrag (and a subset end-to-end through a
node's update()); the recorded traces are judged by the TLC monitor TraceReassembly.tla."""
import os
import re
import random
from concurrent.futures import ProcessPoolExecutor

from harness import tlc, sim
from harness.ev import jsonable

FIRST, MORE, LAST = 148, 149, 150
ME = 0o1


def frag(m, k):
    n = m["n"]
    return {"from": m["from"], "to": ME, "id": m["id"],
            "type": LAST if k == n else FIRST if k == 1 else MORE,
            "reserved": m["type"] if k == n else n - k + 1,
            "body": [m["from"], m["tag"], k]}


class Impl:
    def __init__(self, via_node):
        from circuitpython_nrf24l01.network import structs as st
        self.st = st
        self.node = None
        if via_node:
            from circuitpython_nrf24l01.rf24_network import RF24Network
            s = sim.Sched()
            air = sim.Air(s)
            sim.install(s)
            self.chip = sim.Chip(air, "n")
            self.node = RF24Network(sim.FakeSpiDev(self.chip), 0, sim.Pin(self.chip), ME)
            self.s = s
        else:
            self.q = st.FrameQueueFrag()

    def recv(self, f):
        fr = self.st.RF24NetworkFrame()
        h = fr.header
        h.from_node, h.to_node, h.frame_id, h.message_type, h.reserved = f["from"], f["to"], f["id"], f["type"], f["reserved"]
        fr.message = bytes(f["body"])
        if self.node is None:
            self.q.enqueue(fr)
        else:
            # over the air: parent side pipe of node 0o1 is pipe 1 (frames from the master arrive there)
            r = self.chip.inject(1, fr.pack())
            if r[1] not in ("new",):
                raise RuntimeError("injection failed: %s" % (r,))
            with sim.guard(self.s, 3_000_000_000):
                self.node.update()

    def deq(self):
        fr = (self.q if self.node is None else self.node.queue).dequeue()
        if fr is None:
            return None
        return {"from": fr.header.from_node, "id": fr.header.frame_id, "type": fr.header.message_type,
                "body": list(fr.message)}


def replay(msgs, pat, via_node=False, prefill=0):
    """pat: list of (i, k) with i 1-based message index, (0,0) = application dequeues
    prefill: unrelated single-frame messages already waiting in the queue when the pattern starts (6 = queue exactly full)"""
    impl = Impl(via_node)
    ev = []
    ndel = 0
    for i in range(prefill):
        f = {"from": 0o5, "to": ME, "id": 0x700 + i, "type": 9, "reserved": 0, "body": [0o5, 0x70 + i, 0]}
        impl.recv(f)
        ev.append(dict(op="plain", fr=f))
    for (i, k) in pat:
        if i == 0:
            r = impl.deq()
            ev.append(dict(op="deq", has=r is not None, res=r or {}))
            ndel += r is not None
        else:
            f = frag(msgs[i - 1], k)
            impl.recv(f)
            ev.append(dict(op="recv", m=i, k=k, fr=f))
    while True:  # final drain so that everything the node would hand out is observed
        r = impl.deq()
        ev.append(dict(op="deq", has=r is not None, res=r or {}))
        if r is None:
            break
        ndel += 1
    return dict(msgs=msgs, ev=ev), ndel


def _replay_many(args):
    msgs, pats, via = args[:3]
    prefill = args[3] if len(args) > 3 else 0
    sim.install(sim.Sched())
    out = []
    for p in pats:
        t, nd = replay(msgs, p, via, prefill)
        out.append((t if nd > prefill or (prefill and any(e["op"] == "deq" and e["has"] and e["res"]["from"] != 0o5 for e in t["ev"])) else None, nd))
    return out


def gen_patterns(chk, cfg, simulate=None):
    args = []
    if simulate:
        args = ["-simulate", "num=%d" % simulate[0], "-depth", str(simulate[1]), "-seed", str(chk.seed + 1)]
    r = tlc.run("ReassemblyGen", cfg, timeout=1500, args=args, workers=(1 if simulate else 16))
    if not r["ok"] and not simulate:
        raise tlc.TlcError("pattern generator failed: %s" % r["stdout"][-2000:])
    out = r["stdout"]
    m = re.search(r'^"MSGS (.*)"$', out, re.M)
    msgs = tlc.parse_value(m.group(1).replace('\\"', '"'))
    pats = sorted(set(re.findall(r'^"PAT (.*)"$', out, re.M)))
    pats = [[(int(a), int(b)) for a, b in re.findall(r'<<(\d+), (\d+)>>', p)] for p in pats]
    return r, msgs, pats


def classify(trace, at):
    """coarse class of a wrong delivery, used only for the known-finding key"""
    e = trace["ev"][at - 1]
    if not e.get("has"):
        return "other"
    body = e["res"]["body"]
    frs = [tuple(body[i:i + 3]) for i in range(0, len(body), 3)]
    owners = {(f[0], f[1]) for f in frs}
    if len(set(frs)) < len(frs):
        return "repeated-fragment-splice"
    if len(owners) > 1:
        return "cross-message-splice"
    return "incomplete-delivery"


def canon(trace, at):
    names, out = {}, []
    for e in trace["ev"][:at]:
        if e["op"] == "deq":
            out.append("deq" if e["has"] else "deq0")
        elif e["op"] == "plain":
            out.append("plain")
        else:
            a = names.setdefault(e["m"], "abcdefgh"[len(names)])
            out.append("%s%d/%d" % (a, e["k"], trace["msgs"][e["m"] - 1]["n"]))
    return " ".join(out)


def run(chk):
    quick = chk.tier == "quick"
    chk.rule = ("delivery patterns = all behaviours of ReassemblyGen.tla (Recv(m,k) up to MaxCopies per fragment in any "
                "order/interleaving, application dequeue at any point) to the depth in the cfg, plus tlc -simulate behaviours "
                "of a larger instance; each replayed on the real FrameQueueFrag; traces with >=1 delivery validated by "
                "TraceReassembly.tla (no delivery => both safety clauses hold trivially). distinct = distinct patterns")
    r = tlc.mc("Reassembly", "Reassembly" if quick else "Reassembly_thorough", timeout=1500)
    chk.add_tlc(r, "reference reassembler satisfies C06_Genuine / C06_AtMostOnce")
    jobs = []
    rg, msgs, pats = gen_patterns(chk, "ReassemblyGen" if quick else "ReassemblyGen_thorough")
    chk.add_tlc(rg, "exhaustive pattern enumeration")
    jobs.append((msgs, pats, "exhaustive"))
    rs, msgs2, pats2 = gen_patterns(chk, "ReassemblyGen_big", simulate=(300 if quick else 6000, 14))
    chk.add_tlc(rs, "tlc -simulate patterns, 3 senders, 5..7 fragments")
    jobs.append((msgs2, pats2, "simulate"))
    traces = []
    with ProcessPoolExecutor(16) as ex:
        for msgs_, pats_, kind in jobs:
            chunks = [pats_[i::32] for i in range(32)]
            for ch, res in zip(chunks, ex.map(_replay_many, [(msgs_, c, False) for c in chunks])):
                for p, (t, nd) in zip(ch, res):
                    chk.case(("p", kind, tuple(p)))
                    chk.traces += 1
                    if t:
                        traces.append(t)
            # end-to-end through update() for a subset
            sub = pats_[:: (60 if quick else 12)]
            chunks = [sub[i::16] for i in range(16)]
            for ch, res in zip(chunks, ex.map(_replay_many, [(msgs_, c, True) for c in chunks])):
                for p, (t, nd) in zip(ch, res):
                    chk.case(("n", kind, tuple(p)))
                    chk.traces += 1
                    if t:
                        traces.append(t)
            # the same patterns met by a queue that already holds 5 or 6 unrelated frames (6 = exactly full: the completed
            # message is refused; whatever the node keeps of it must not come back later)
            for pre in (6, 5):
                sub = pats_[:: (3 if quick else 1)] if kind == "exhaustive" else pats_[:: (4 if quick else 2)]
                chunks = [sub[i::32] for i in range(32)]
                for ch, res in zip(chunks, ex.map(_replay_many, [(msgs_, c, False, pre) for c in chunks])):
                    for p, (t, nd) in zip(ch, res):
                        chk.case(("f%d" % pre, kind, tuple(p)))
                        chk.traces += 1
                        if t:
                            traces.append(t)
    chk.extra["patterns_with_delivery"] = len(traces)
    if traces:
        chk.sample(dict(kind="recorded trace", msgs=traces[0]["msgs"], ev=traces[0]["ev"][:6]))
    verdicts, st = tlc.validate("TraceReassembly", "TraceReassembly", jsonable(traces), shard=3000, timeout=1500)
    chk.add_stats(st, "trace validation")
    best = {}
    for t, v in zip(traces, verdicts):
        if v["clause"] == "harness":
            raise tlc.TlcError("harness frame differs from Frag(m,k): %s" % v)
        if v["clause"] != "ok":
            key = v["clause"] + ":" + classify(t, v["at"])
            w = canon(t, v["at"])
            if key not in best or (len(w), w) < (len(best[key][0]), best[key][0]):
                best[key] = (w, t, v)
    for key, (w, t, v) in best.items():
        chk.violation(v["clause"], key, dict(kind="pattern", witness=w, msgs=t["msgs"], ev=t["ev"][: v["at"]]),
                      "%s; shortest witness: %s" % (v["detail"], w))
    chk.exhaustive = True
    chk.assumptions += ["a complete in-order replay of all fragments is indistinguishable from a second transmission: "
                        "at-most-once means no more deliveries than the minimum reception count over the fragments",
                        "frame ids may coincide across senders only (one sender re-using an id for a different message "
                        "is wire-indistinguishable)"]
