"""C12 - the frame queue is a bounded, duplicate-free FIFO of private copies.
(A) every edge of the exhaustively explored FrameQueue.tla state graph is replayed on the real queue classes
    (directly and through a node's `fragmentation` setter); (B) long random histories are recorded from the real
    code and validated by the total monitor TraceFrameQueue.tla."""
import random

from harness import tlc, sim
from harness.tourlib import Graph, minimize
from harness.ev import jsonable


def _mods():
    from circuitpython_nrf24l01.network import structs
    return structs


class Impl:
    """adapter: abstract FrameQueue.tla actions -> public API of the real queue; observations only through
    enqueue/dequeue/peek/len/max_queue_size"""

    def __init__(self, via_node=False):
        st = _mods()
        self.st = st
        self.node = None
        if via_node:
            from circuitpython_nrf24l01.rf24_network import RF24Network
            s = sim.Sched()
            air = sim.Air(s)
            sim.install(s)
            c = sim.Chip(air, "n")
            self.node = RF24Network(sim.FakeSpiDev(c), 0, sim.Pin(c), 0o1)
            self.q = self.node.queue
        else:
            self.q = st.FrameQueueFrag()
        self.reused = st.RF24NetworkFrame()
        self.handed = []     # (object dequeue() returned, its projection at that moment)
        self.passed = []     # objects this caller passed to enqueue()

    def alias(self):
        """re-inspect every object ever handed out / passed in; returns "" or the first discrepancy"""
        seen = {}
        for k, (fr, was) in enumerate(self.handed):
            if self.proj(fr) != was:
                return "the frame dequeue #%d returned was altered by a later queue operation" % (k + 1)
            if id(fr) in seen:
                return "dequeue #%d and #%d returned one and the same object" % (seen[id(fr)] + 1, k + 1)
            seen[id(fr)] = k
            if any(fr is x for x in self.passed):
                return "dequeue #%d returned the very object the caller had passed to enqueue()" % (k + 1)
        return ""

    def queue(self):
        return self.node.queue if self.node is not None else self.q

    @staticmethod
    def proj(fr):
        if fr is None:
            return None
        return {"from": fr.header.from_node, "id": fr.header.frame_id, "type": fr.header.message_type,
                "body": list(fr.message)}

    def enq(self, f, how):
        st = self.st
        if how == "reuse":
            fr = self.reused
        else:
            fr = st.RF24NetworkFrame()
        fr.header.from_node, fr.header.to_node = f["from"], 0o1
        fr.header.frame_id, fr.header.message_type, fr.header.reserved = f["id"], f["type"], 0
        if how == "str":
            fr.header.message_type = chr(f["type"])      # "When set using a str ..." (documented for the attribute)
        fr.message = bytearray(f["body"])
        if not any(fr is x for x in self.passed):
            self.passed.append(fr)
        res = self.queue().enqueue(fr)
        if how == "mutate":  # the caller scribbles over the object it passed in
            fr.header.from_node ^= 0o5
            fr.header.frame_id = (fr.header.frame_id + 1) & 0xFFFF
            fr.header.message_type ^= 1
            for i in range(len(fr.message)):
                fr.message[i] ^= 0xFF
            fr.message += b"\x99"
        return res

    def frag_on(self):
        return isinstance(self.queue(), self.st.FrameQueueFrag)

    def enq_frag(self, f):
        """the message of frame f arrives as two fragments (one reused frame object, like the network layer's frame_buf)"""
        fr = self.reused
        if not any(fr is x for x in self.passed):
            self.passed.append(fr)
        out = []
        for typ, res, body in ((148, 2, f["body"][:1]), (150, f["type"], f["body"][1:])):
            fr.header.from_node, fr.header.to_node = f["from"], 0o1
            fr.header.frame_id, fr.header.message_type, fr.header.reserved = f["id"], typ, res
            fr.message = bytearray(body)
            out.append(bool(self.queue().enqueue(fr)))
        return out

    def deq(self):
        fr = self.queue().dequeue()
        if fr is not None:
            self.handed.append((fr, self.proj(fr)))
        return self.proj(fr)

    def peek(self):
        return self.proj(self.queue().peek())

    def setmax(self, n):
        self.queue().max_queue_size = n

    def toggle(self):
        if self.node is not None:
            self.node.fragmentation = not self.node.fragmentation
        else:
            cls = self.st.FrameQueue if isinstance(self.q, self.st.FrameQueueFrag) else self.st.FrameQueueFrag
            self.q = cls(self.q)

    def obs(self):
        return len(self.queue()), self.queue().max_queue_size


def apply_label(impl, name, args):
    """execute one spec action on the implementation; returns the observation event (TraceFrameQueue format)"""
    if name == "Enq":
        f, how = args
        res = impl.enq(f, how)
        ev = dict(op="enq", f=f, how=how, res=bool(res))
    elif name == "EnqFrag":
        first, res = impl.enq_frag(args[0])
        ev = dict(op="enqfrag", f=args[0], first=first, res=res)
    elif name == "Deq":
        r = impl.deq()
        ev = dict(op="deq", has=r is not None, res=r or {})
    elif name == "Peek":
        r = impl.peek()
        ev = dict(op="peek", has=r is not None, res=r or {})
    elif name == "SetMax":
        impl.setmax(args[0])
        ev = dict(op="setmax", n=args[0])
    elif name == "Toggle":
        impl.toggle()
        ev = dict(op="toggle")
    else:
        raise KeyError(name)
    ev["len"], ev["max"] = impl.obs()
    ev["alias"] = impl.alias()
    return ev


NOFRAME = {"from": -1, "id": -1, "type": -1, "body": []}


def compare(ev, src, dst):
    """conformance of one observed step with the spec edge src -> dst; returns failed clause or None"""
    last = dst["last"]
    if ev.get("alias"):
        return "C12.Snapshot"
    if ev["op"] == "enqfrag" and not ev["first"]:
        return "C12.EnqueueResult"
    if ev["op"] in ("enq", "enqfrag"):
        if ev["res"] != last["res"]:
            if ev["res"]:
                return "C12.Bound" if len(src["q"]) >= src["max"] else "C12.NoDup"
            return "C12.EnqueueResult"
    if ev["op"] in ("deq", "peek"):
        got = ev["res"] if ev["has"] else NOFRAME
        want = last["res"]
        if got != want:
            if ev["has"] and src["q"] and (got["from"], got["id"], got["type"]) == (
                    want["from"], want["id"], want["type"]):
                return "C12.Snapshot"
            if ev["has"] and got in src["q"]:
                return "C12.Fifo"
            return "C12.Once"
    if ev["len"] != len(dst["q"]):
        return "C12.MovePreserves" if ev["op"] == "toggle" else "C12.Fifo"
    if ev["max"] != dst["max"]:
        return "C12.MovePreserves"
    return None


def replay_path(g, path, via_node):
    """returns (failed clause, step index, events)"""
    impl = Impl(via_node)
    evs = []
    for k, (a, l, b) in enumerate(path):
        name, args = g.label(l)
        ev = apply_label(impl, name, args)
        evs.append(ev)
        c = compare(ev, g.nodes[a], g.nodes[b])
        if c:
            return c, k, evs
    return None, None, evs


def random_history(rng, depth, via_node):
    impl = Impl(via_node)
    evs = []
    keys = [(rng.randrange(0, 6), rng.randrange(0, 3), rng.choice([0, 1, 65, 127, 131, 193, 255])) for _ in range(rng.choice([6, 12]))]
    for _ in range(depth):
        x = rng.random()
        if x < 0.5:
            fr, i, t = rng.choice(keys)
            f = {"from": fr, "id": i, "type": t, "body": [rng.randrange(256) for _ in range(rng.choice([0, 1, 3, 24]))]}
            if impl.frag_on() and rng.random() < 0.3:
                ev = apply_label(impl, "EnqFrag", [f])
            else:
                ev = apply_label(impl, "Enq", [f, rng.choice(["fresh", "mutate", "reuse", "str"])])
        elif x < 0.75:
            ev = apply_label(impl, "Deq", [])
        elif x < 0.85:
            ev = apply_label(impl, "Peek", [])
        elif x < 0.93:
            ev = apply_label(impl, "SetMax", [rng.choice([0, 1, 2, 3, 6, 8])])
        else:
            ev = apply_label(impl, "Toggle", [])
        evs.append(ev)
    return evs


def fill_toggle(via_node, mx, k, toggles, how):
    """structured family beyond the exhaustive bound: raise max_queue_size, fill with k distinct frames, toggle, drain"""
    impl = Impl(via_node)
    evs = [apply_label(impl, "SetMax", [mx])]
    for i in range(k):
        f = {"from": 1 + i % 5, "id": i, "type": (0, 65)[i % 2], "body": [i, 255 - i]}
        evs.append(apply_label(impl, "Enq", [f, how]))
    for _ in range(toggles):
        evs.append(apply_label(impl, "Toggle", []))
        evs.append(apply_label(impl, "Peek", []))
    for _ in range(k + 1):
        evs.append(apply_label(impl, "Deq", []))
    return evs


def run(chk):
    quick = chk.tier == "quick"
    chk.rule = ("(A) every edge of the FrameQueue.tla state graph (exhaustive to the bound in the cfg) replayed on the "
                "real queue, result/len/max compared with the target state; distinct = distinct spec edges covered. "
                "(B) random histories recorded from the real queue and validated by TraceFrameQueue.tla")
    cfg = "FrameQueue" if quick else "FrameQueue_thorough"
    g = Graph.load("FrameQueue", cfg, timeout=1500)
    chk.add_tlc(g.result, "exhaustive reference model + graph export")
    paths = g.tour()
    fails = {}
    for via_node in (False, True):
        use = paths if not via_node else paths[:: (40 if quick else 10)]
        for p in use:
            clause, k, evs = replay_path(g, p, via_node)
            chk.traces += 1
            for e in p:
                chk.case(e)
            if clause:
                fails.setdefault((clause, via_node), [x[1] for x in p[: k + 1]])
    chk.sample(dict(kind="tour path", labels=[x[1] for x in paths[len(paths) // 2]][:12]))
    for (clause, via_node), labels in fails.items():
        def f(ls):
            w = g.walk(ls)
            if w is None:
                return None
            return replay_path(g, w, via_node)[0]
        m = minimize(labels, f)
        names = [g.label(x)[0] + (str(g.label(x)[1][0]) if g.label(x)[0] == "SetMax" else "") for x in m]
        chk.violation(clause, clause + ":" + ">".join(names), dict(kind="tour", via_node=via_node, labels=m))
    # (B) random histories -> TLC
    rng = random.Random(chk.seed * 7919 + 12)
    n = 300 if quick else 3000
    traces = [random_history(rng, 60, via_node=(i % 10 == 0)) for i in range(n)]
    for mx in (3, 6, 7, 8, 10):
        for k in (mx - 1, mx, mx + 1):
            for toggles in (1, 2, 3):
                for how in ("fresh", "reuse"):
                    traces.append(fill_toggle(toggles == 2, mx, k, toggles, how))
    n = len(traces)
    verdicts, st = tlc.validate("TraceFrameQueue", "TraceFrameQueue", jsonable(traces))
    chk.add_stats(st, "trace validation of random histories")
    chk.traces += n
    chk.sample(dict(kind="recorded trace (first 4 events)", events=traces[0][:4]))
    for t, v in zip(traces, verdicts):
        chk.case(n=len(t))
        if v["clause"] != "ok":
            ops = [e["op"] + (str(e["n"]) if e["op"] == "setmax" else "") for e in t[: v["at"]]]
            chk.violation(v["clause"], v["clause"] + ":trace", dict(kind="trace", events=t[: v["at"]]), v["detail"])
    chk.exhaustive = True
    chk.extra["spec_edges"] = len(g.edges)
    chk.extra["spec_states"] = len(g.nodes)
    chk.assumptions += ["frames offered are non-fragment types or complete FIRST+LAST fragment pairs (other fragment patterns are C06)",
                        "queue content observed only through enqueue/dequeue/peek/len/max_queue_size"]
