#!/bin/sh
# run every registered check in the given tier (default quick); prints one summary line per property
cd "$(dirname "$0")/.."
TIER=${1:-quick}
mkdir -p .work evidence
for p in C01 C02 C03 C04 C05 C06 C07 C08 C09 C10 C11 C12 C13 C14 C15 C16 C17 C18 C19 C20; do
  s=$(date +%s)
  ./check $p --tier $TIER > .work/run_$p.log 2>&1; rc=$?
  e=$(date +%s)
  echo "$p rc=$rc $((e-s))s  $(grep -c '^KNOWN-FINDING' .work/run_$p.log) known  $(grep -c '^VIOLATION' .work/run_$p.log) violations"
done
