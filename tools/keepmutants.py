"""copy confirmed sub-agent mutants into /verif/seeded/<Cnn>-m<k>/ (patch.diff, demo.py, meta.json) from /tmp/seed"""
import glob, json, os, shutil, sys
BASE = os.environ.get("SEED_DIR", "/tmp/seed")
TAG = os.environ.get("SEED_TAG", "m")
for f in sorted(glob.glob(BASE + "/eval_C*_*.json")):
    try:
        r = json.load(open(f))
    except Exception:
        continue
    if not r.get("confirmed"):
        print("NOT CONFIRMED", f); continue
    pid, k = r["property"], r["mutant"]
    src = "%s/%s/out" % (BASE, pid)
    dst = "/verif/seeded/%s-%s%s" % (pid, TAG, k)
    os.makedirs(dst, exist_ok=True)
    shutil.copy(os.path.join(src, "m%s.diff" % k), os.path.join(dst, "patch.diff"))
    shutil.copy(os.path.join(src, "m%s_demo.py" % k), os.path.join(dst, "demo.py"))
    try:
        am = json.load(open(os.path.join(src, "m%s_meta.json" % k)))
    except Exception:
        am = {}
    old = {}
    if os.path.exists(os.path.join(dst, "meta.json")):
        old = json.load(open(os.path.join(dst, "meta.json")))
    detected_by = {c: v["clauses"] for c, v in r["checks"].items() if v["rc"] == 1}
    hist = old.get("history", [])
    meta = dict(property=pid, summary=am.get("summary"), needs_to_manifest=am.get("needs_to_manifest"), files=am.get("files"),
                confirmed=dict(suite_with_change=r["suite"], demo_rc_unchanged_tree=r["demo_clean_rc"], demo_rc_with_change=r["demo_mutant_rc"],
                               how="git apply in a scratch worktree of /repo; pinned suite; demo with and without the change; "
                                   "VERIF_REPO=<worktree> ./check <id> --tier quick; worktree restored afterwards"),
                detected_by=detected_by, detected=bool(detected_by),
                missed_by_first_version=old.get("missed_by_first_version", False) or (not detected_by and not old.get("detected", False)),
                history=hist)
    json.dump(meta, open(os.path.join(dst, "meta.json"), "w"), indent=1)
    print(pid, k, "detected by", detected_by)
