#!/bin/bash
# regression of detection power: apply every kept change in a scratch worktree of /repo, run the checks that are
# recorded as catching it (quick tier), expect exit 1; the worktree is removed afterwards.  usage: evalseeded.sh [dirs...]
cd /verif
dirs=${@:-$(ls seeded)}
for d in $dirs; do
  wt=/tmp/sw_$d
  git -C /repo worktree add -q --detach $wt HEAD || continue
  if grep -q neutralised_by /verif/seeded/$d/meta.json; then
    echo "$d neutralised by a later fix (see meta.json), skipped"
  elif git -C $wt apply /verif/seeded/$d/patch.diff 2>/dev/null; then
    checks=$(python3 -c "import json;print(' '.join(json.load(open('/verif/seeded/$d/meta.json'))['detected_by'].keys()))")
    for c in $checks; do
      VERIF_REPO=$wt ./check $c --tier quick > .work/seeded_${d}_$c.log 2>&1; rc=$?
      echo "$d $c rc=$rc $(grep -o 'clause=[A-Za-z0-9.]*' .work/seeded_${d}_$c.log | sort -u | tr '\n' ' ')"
    done
  else
    echo "$d patch does not apply to the current tree"
  fi
  git -C /repo worktree remove --force $wt
done
