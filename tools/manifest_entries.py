add("C12", "model_checking",
    "FrameQueue.tla is model-checked exhaustively (bounded queue length and frame alphabet) against the C12 clauses; every edge of its state graph is replayed on the real FrameQueue/FrameQueueFrag (directly and through a node's fragmentation setter) and random depth-60 histories recorded from the real code are validated by the TLC trace monitor TraceFrameQueue.tla.",
    "Trusts TLC, the dot/JSON bridge and that queue content is observable through enqueue/dequeue/peek/len. Aliasing (private copies) is observed by the harness mutating/reusing the caller's frame object after enqueue.",
    "TLC exhaustive model + transition-tour replay + TLC trace validation", "6/C12")
