#!/bin/sh
# evaluate both mutants of one property sequentially: tools/evalprop.sh Cnn [extra checks]
p=$1; shift
for k in 1 2; do
  B=${SEED_DIR:-/tmp/seed}; [ -f $B/$p/out/m$k.diff ] && /venv/bin/python /verif/tools/evalmutant.py $p $k "$@" > $B/eval_${p}_$k.json 2>&1
done
