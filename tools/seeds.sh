#!/bin/sh
# quick tier of the given checks under several seeds; prints anything that is not a clean pass
cd "$(dirname "$0")/.."
mkdir -p .work evidence
PROPS=${PROPS:-"C05 C07 C13 C14 C17 C02 C16 C09 C19 C18 C01 C10 C15"}
for seed in ${SEEDS:-1 2 3 4 5}; do
  for p in $PROPS; do
    VERIF_SEED=$seed ./check $p --tier quick > .work/seed_${p}_$seed.log 2>&1; rc=$?
    echo "seed=$seed $p rc=$rc $(grep -c '^VIOLATION' .work/seed_${p}_$seed.log) violations $(grep -c '^KNOWN' .work/seed_${p}_$seed.log) known"
    if [ $rc -ne 0 ]; then grep -A1 '^VIOLATION\|MACHINERY' .work/seed_${p}_$seed.log | cut -c1-300 | head -8; fi
  done
done
