"""writes MANIFEST.json from the table below (single source of truth for the registered checks)"""
import json, os
ROOT = os.path.dirname(os.path.dirname(os.path.abspath(__file__)))
P = {}
def add(pid, cat, text, note, technique, design_ref):
    P[pid] = dict(property_id=pid, quick_cmd="./check %s --tier quick" % pid, thorough_cmd="./check %s --tier thorough" % pid,
                  evidence_file="/verif/evidence/%s.json" % pid, replay_cmd_template="./check %s --replay {path}" % pid,
                  engine="tlc", level_claimed=dict(category=cat, text=text, design_ref=design_ref), level_note=note,
                  technique=technique)
exec(open(os.path.join(ROOT, "tools", "manifest_entries.py")).read())
NA = json.load(open(os.path.join(ROOT, "tools", "not_applicable.json")))
claimed = sorted(P)
man = dict(version=1,
           setup_cmd="cd /verif && sh tools/setup.sh",
           hooks=dict(guard="NRF24_CIRCUITPYTHON_NRF24L01_VERIF", enable="no source hooks: the checks observe the driver through a simulated SPI bus, CE/CSN pins and a virtual clock injected from /verif/harness (time rebinding in the imported repo modules)",
                      baseline_off_cmd="/venv/bin/python /verif/tools/baseline.py", source_commits=[], add_only=True),
           engines=[dict(name="tlc", path="/verif/spec", serves_properties=claimed,
                         kind_free_text="explicit TLA+ specifications model-checked by TLC; bound to the code by (A) replaying TLC state-graph tours / -simulate behaviours on the real classes over an executable nRF24L01+ double, (B) TLC trace validation (total monitors) of traces recorded from the real code, (C) TLC checks over tables dumped from the implementation")],
           checks=[P[k] for k in claimed],
           notes="See DESIGN.md. Genuine defects found are listed in known_findings.json (fixed ones as 'fixed:' lines with the repo commit).",
           not_applicable=[x for x in NA if x["property_id"] not in P])
json.dump(man, open(os.path.join(ROOT, "MANIFEST.json"), "w"), indent=1)
print("claimed:", claimed, "not_applicable:", [x["property_id"] for x in man["not_applicable"]])
