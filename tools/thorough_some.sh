#!/bin/sh
cd "$(dirname "$0")/.."
mkdir -p .work evidence
for p in "$@"; do
  s=$(date +%s); ./check $p --tier thorough > .work/thor_$p.log 2>&1; rc=$?; e=$(date +%s)
  echo "$p rc=$rc $((e-s))s"; grep -A1 '^VIOLATION\|^MACHINERY\|^KNOWN' .work/thor_$p.log | cut -c1-400 | head -40
done
