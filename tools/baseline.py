"""run the repository's pinned suite (guard off) and compare the set of passing tests with BASELINE.json"""
import json, os, subprocess, sys, tempfile
import xml.etree.ElementTree as ET
base = json.load(open("/root/.vp/BASELINE.json")) if os.path.exists("/root/.vp/BASELINE.json") else None
with tempfile.TemporaryDirectory() as d:
    x = os.path.join(d, "j.xml")
    env = dict(os.environ); env.pop("NRF24_CIRCUITPYTHON_NRF24L01_VERIF", None); env["PYTHONDONTWRITEBYTECODE"] = "1"
    p = subprocess.run(["/venv/bin/python", "-m", "pytest", "-ra", "-q", "-p", "no:cacheprovider", "--timeout=900",
                        "--continue-on-collection-errors", "--junitxml=" + x], cwd="/repo", env=env,
                       capture_output=True, text=True)
    passed = set()
    for tc in ET.parse(x).getroot().iter("testcase"):
        if not any(c.tag in ("failure", "error", "skipped") for c in tc):
            passed.add(tc.get("classname") + "::" + tc.get("name"))
print(p.stdout.strip().splitlines()[-1])
if base:
    want = set(base["stable_pass"])
    miss = sorted(want - passed)
    print("baseline tests: %d, passing now: %d, missing: %d" % (len(want), len(want & passed), len(miss)))
    for m in miss[:20]:
        print("  MISSING", m)
    sys.exit(1 if miss else 0)
sys.exit(p.returncode)
