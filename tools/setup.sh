#!/bin/sh
# offline setup: nothing to build; verify the tools the checks need and parse every specification with SANY
set -e
cd "$(dirname "$0")/.."
command -v java >/dev/null
test -f /opt/veriftools/tla/tla2tools.jar
test -x /venv/bin/python
mkdir -p .work evidence
cd spec
for f in *.tla; do
  java -cp /opt/veriftools/tla/tla2tools.jar:/opt/veriftools/tla/CommunityModules-deps.jar tla2sany.SANY "$f" >../.work/sany.out 2>&1 || { echo "SANY failed on $f"; cat ../.work/sany.out; exit 1; }
done
echo "setup ok: $(ls *.tla | wc -l) TLA+ modules parse"
