"""confirm a sub-agent mutant and run our checks against it, in the agent's scratch worktree (never in /repo).
usage: evalmutant.py <Cnn> <k> [extra check ids...]   -> prints a JSON summary"""
import json, os, subprocess, sys
pid, k = sys.argv[1], sys.argv[2]
extra = sys.argv[3:]
BASE = os.environ.get("SEED_DIR", "/tmp/seed")
wt = "%s/%s" % (BASE, pid)
out = os.path.join(wt, "out")
diff = os.path.join(out, "m%s.diff" % k)
demo = os.path.join(out, "m%s_demo.py" % k)
env = dict(os.environ, PYTHONPATH=wt, PYTHONDONTWRITEBYTECODE="1")
def sh(cmd, **kw):
    return subprocess.run(cmd, shell=True, capture_output=True, text=True, env=env, **kw)
res = dict(property=pid, mutant=k)
head = subprocess.run("git -C /repo rev-parse HEAD", shell=True, capture_output=True, text=True).stdout.strip()
sh("git -C %s checkout -- circuitpython_nrf24l01" % wt)
sh("git -C %s checkout -q --detach %s" % (wt, head))      # evaluate against the current (repaired) tree
res["base"] = head[:7]
r = sh("cd %s && timeout 120 /venv/bin/python %s" % (wt, demo)); res["demo_clean_rc"] = r.returncode
a = sh("git -C %s apply %s" % (wt, diff)); res["apply_rc"] = a.returncode
if a.returncode:
    res["apply_err"] = a.stderr[-300:]
r = sh("cd %s && /venv/bin/python -m pytest -q -p no:cacheprovider -x 2>&1 | tail -1" % wt); res["suite"] = r.stdout.strip()
r = sh("cd %s && timeout 120 /venv/bin/python %s" % (wt, demo)); res["demo_mutant_rc"] = r.returncode
res["demo_mutant_out"] = (r.stdout + r.stderr)[-300:]
res["checks"] = {}
for c in [pid] + extra:
    r = subprocess.run("cd /verif && VERIF_REPO=%s ./check %s --tier %s" % (wt, c, os.environ.get("EVAL_TIER", "quick")), shell=True, capture_output=True, text=True,
                       env=dict(os.environ, VERIF_REPO=wt))
    clauses = sorted({l.split("clause=")[1].split(" ")[0] for l in r.stdout.splitlines() if "clause=" in l})
    res["checks"][c] = dict(rc=r.returncode, clauses=clauses)
sh("git -C %s checkout -- circuitpython_nrf24l01" % wt)
res["confirmed"] = res["demo_clean_rc"] == 0 and res["demo_mutant_rc"] != 0 and "208 passed" in res["suite"] and res["apply_rc"] == 0
res["detected"] = any(v["rc"] == 1 for v in res["checks"].values())
print(json.dumps(res, indent=1))
