"""prompt given to the fresh sub-agents that produce seeded changes (only the property text + a scratch worktree):
   tools/seedprompt.py <Cnn> <base dir>   (the property text is read from <base dir>/<Cnn>.txt)"""
import sys
pid, base = sys.argv[1], sys.argv[2]
text = open('%s/%s.txt' % (base, pid)).read()
print(f"""You are working in a scratch git worktree of the CircuitPython_nRF24L01 repository (a CircuitPython/CPython driver for the nRF24L01 radio with a network layer) at {base}/{pid}. Work ONLY inside that directory; never touch /repo, /verif or anything else, and do not read /verif.

Practicalities: use /venv/bin/python. The package is installed in editable mode pointing at another checkout, so ALWAYS run python with PYTHONPATH={base}/{pid} so that THIS worktree's code is imported; verify once with: PYTHONPATH={base}/{pid} /venv/bin/python -c "import circuitpython_nrf24l01; print(circuitpython_nrf24l01.__file__)". Run the existing suite with: cd {base}/{pid} && PYTHONPATH={base}/{pid} /venv/bin/python -m pytest -q -p no:cacheprovider  (expected on the unmodified tree: 208 passed, 55 xfailed, 1 xpassed). There is no network access. Never use `git stash` (worktrees share the stash); revert with `git checkout -- circuitpython_nrf24l01`.

Here is a semantic property the library is supposed to satisfy:

{text}

Task: produce 2 DIFFERENT small source changes ("mutants") to files under circuitpython_nrf24l01/, each of which BREAKS this property while
 (a) the package still imports and runs,
 (b) the existing test suite still passes completely (same counts as above), and
 (c) the breakage needs something specific to manifest - a particular multi-step call sequence (three or more steps), a particular interleaving or fault (lost packet / lost ACK / timing), an unusual but legal configuration or input, or two cooperating sites that each look fine alone - NOT something that every ordinary use would expose at once.
Make them realistic: the kind of regression a refactoring or an "optimisation" could introduce (off-by-one, dropped or reordered step, wrong mask/shift, stale cached value, weakened condition, state not reset on an error path), roughly 1-10 changed lines each. Avoid the single most obvious line for this property; prefer a less travelled code path (error/timeout paths, re-configuration after first use, rarely used options, the second of two similar branches). The two mutants should break the property in different ways / different code sites.

For each mutant k in {{1,2}} write into {base}/{pid}/out/ :
  m<k>.diff      - `git diff` against HEAD containing only that mutant
  m<k>_demo.py   - a standalone program run as `PYTHONPATH={base}/{pid} /venv/bin/python out/m<k>_demo.py` that exits 0 when the property holds for its scenario and exits non-zero (printing an explanation) when it is violated. It must exit 0 on the unmodified worktree and non-zero with the mutant applied. It may build whatever test double of the SPI bus / radio / peer it needs (tests/conftest.py shows how the repo fakes the SPI bus with a register dict; a fuller fake radio with FIFOs, ACKs or several nodes is fine if the scenario needs one). Keep it self-contained (stdlib + the package).
  m<k>_meta.json - {{"property": "{pid}", "summary": "...", "needs_to_manifest": "...", "files": ["..."]}}
Verify everything yourself for each mutant: apply it -> run the suite (must pass) -> run the demo (must fail) -> `git checkout -- circuitpython_nrf24l01` -> run the demo (must pass). Leave the worktree clean at the end (git status shows only out/).

Separately: if, while reading the code, you notice behaviour of the UNMODIFIED code that already seems to violate this property, say so in your final report with the concrete input / call sequence (do not build your demos on it). Finish with a brief report of what you made and the verification results.""")
