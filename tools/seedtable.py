"""print the markdown table of the seeded changes (DESIGN.md 0.6): tools/seedtable.py [tag-substring]"""
import glob, json, os, sys
tag = sys.argv[1] if len(sys.argv) > 1 else ""
print("| Change | What it does | Caught by (clauses) | Missed by the first version? |")
print("|---|---|---|---|")
for d in sorted(glob.glob("/verif/seeded/*")):
    name = os.path.basename(d)
    if tag not in name:
        continue
    m = json.load(open(d + "/meta.json"))
    by = "; ".join("%s (%s)" % (c, ", ".join(cl) if cl else "exit 1") for c, cl in m.get("detected_by", {}).items())
    missed = ("yes: " + m.get("strengthening", "")) if m.get("missed_by_first_version") else "no"
    print("| `%s` | %s | %s | %s |" % (name, (m.get("summary") or "").replace("|", "/").replace("\n", " ")[:160], by, missed))
