#!/bin/bash
# full mutant matrix: every kept sub-agent change against its property's check (+ related checks), 5 properties at a time
run_one() {
  p=$1
  case $p in C01) e="C02 C08";; C02) e="C10";; C03) e="C08 C09";; C04) e="C07";; C05) e="C12 C13 C04 C02";; C06) e="C11 C14";; C07) e="C17 C04 C09";; C08) e="C03";; C09) e="C03";; C10) e="C03 C01";; C13) e="C05 C14";; C11) e="C05";; C14) e="C07";; C15) e="C17 C16";; C17) e="C16 C13";; C19) e="C18";; *) e="";; esac
  /verif/tools/evalprop.sh $p $e
}
export -f run_one
printf '%s\n' "$@" | xargs -P 5 -I{} bash -c 'run_one {}'
