#!/bin/bash
# tools/evalseeded.sh over all kept changes, N at a time (default 6): one summary line per (change, check)
cd "$(dirname "$0")/.."
N=${N:-6}
ls seeded | xargs -P $N -I{} bash tools/evalseeded.sh {}
