"""Executable double of the L0 environment (spec/Nrf24Chip.tla + spec/Esb.tla): nRF24L01+ chip, air,
virtual time and a deterministic multi-node scheduler.  Harness side only - never trusted: its behaviour is
conformance-checked against the TLA+ chip model (checks/chipconf.py) and every verdict about the driver is a
TLA+ clause evaluated over events recorded here.

Semantics fixed here are those of DESIGN.md section 5 (STATUS is clocked out *before* the command executes,
write masks, PID/CRC duplicate filter, ACK only through an enabled pipe 0 whose address equals TX_ADDR, ACK
payload kept until the next new packet, MAX_RT blocks the PTX until cleared, ...).
"""
import heapq
import os
import itertools
import random
import sys
import threading

RESET = {0x00: 0x08, 0x01: 0x3F, 0x02: 0x03, 0x03: 0x03, 0x04: 0x03, 0x05: 0x02, 0x06: 0x0E, 0x07: 0x0E,
         0x08: 0x00, 0x09: 0x00, 0x0C: 0xC3, 0x0D: 0xC4, 0x0E: 0xC5, 0x0F: 0xC6,
         0x11: 0, 0x12: 0, 0x13: 0, 0x14: 0, 0x15: 0, 0x16: 0, 0x17: 0x11, 0x1C: 0, 0x1D: 0}
# writable bits (datasheet section 9); RF_SETUP bit 0 is "don't care" on the plus variant and is stored
WMASK = {0x00: 0x7F, 0x01: 0x3F, 0x02: 0x3F, 0x03: 0x03, 0x04: 0xFF, 0x05: 0x7F, 0x06: 0xBF,
         0x0C: 0xFF, 0x0D: 0xFF, 0x0E: 0xFF, 0x0F: 0xFF,
         0x11: 0x3F, 0x12: 0x3F, 0x13: 0x3F, 0x14: 0x3F, 0x15: 0x3F, 0x16: 0x3F, 0x1C: 0x3F, 0x1D: 0x07}
ADDR_REGS = (0x0A, 0x0B, 0x10)
T_SETTLE = 130_000  # ns, Tstby2a
RATE_BPS = {0: 1_000_000, 8: 2_000_000, 0x20: 250_000, 0x28: 250_000}


class WatchdogExpired(BaseException):
    """virtual-time watchdog: a blocking driver call exceeded its budget"""


class Hang(Exception):
    """what guard() turns an expired watchdog into: harness code that records `type(e).__name__` of any exception a call
    raises then records "Hang" - a call that never returns is an observation, never a hanging check"""


class guard:
    """with guard(sched, budget_ns): <call into the code under test>   (single-thread mode)"""

    def __init__(self, s, budget_ns=5_000_000_000):
        self.s, self.budget = s, int(budget_ns)

    def __enter__(self):
        self.prev = self.s.deadline
        self.s.deadline = self.s.now + self.budget
        return self

    def __exit__(self, et, ev, tb):
        self.s.deadline = self.prev
        if et is WatchdogExpired:
            raise Hang("no return within %d ms of virtual time" % (self.budget // 1_000_000)) from None
        return False


class Sched:
    """module-like replacement for `time` in the repo modules + conservative discrete-event scheduler.

    Single-threaded use (no spawn()/run()): advance() moves the one global clock and fires due air events.
    Multi-node use: every node is a thread with its own local clock; exactly one thread runs at any moment,
    always one whose clock is within the look-ahead of the slowest; air events fire in global time order."""

    def __init__(self, seed=0, jitter=0, lookahead=T_SETTLE - 10_000):
        self.rng = random.Random(seed)
        self.jitter = jitter
        self.Q = lookahead
        self.nodes = []
        self.cur = None
        self.ev = []
        self.cnt = itertools.count()
        self.switches = 0
        self.boot_t = 0
        self.deadline = None  # virtual-time watchdog (ns) for single-thread mode
        self.abort = False

    # ---- event queue
    def at(self, t, fn, *a):
        heapq.heappush(self.ev, (int(t), next(self.cnt), fn, a))

    def run_until(self, t):
        while self.ev and self.ev[0][0] <= t:
            tt, _, fn, a = heapq.heappop(self.ev)
            fn(tt, *a)

    # ---- clock
    @property
    def now(self):
        return self.cur.t if self.cur else self.boot_t

    def advance(self, ns):
        ns = int(ns) + (self.rng.randrange(self.jitter) if self.jitter else 0)
        if self.cur is None:
            self.boot_t += ns
            self.run_until(self.boot_t)
            if self.deadline is not None and self.boot_t > self.deadline:
                self.deadline = None
                raise WatchdogExpired()
            return
        me = self.cur
        me.t += ns
        if self.abort or (me.deadline is not None and me.t > me.deadline):
            me.deadline = None
            raise WatchdogExpired()
        self._yield(me)

    def _yield(self, me):
        alive = [n for n in self.nodes if not n.done and not n.parked]
        lo = min(alive, key=lambda n: (n.t, n.idx)) if alive else me
        nxt_ev = self.ev[0][0] if self.ev else float("inf")
        if lo is not me and me.t <= lo.t + self.Q and me.t < nxt_ev:
            return
        if lo is me:
            self.run_until(me.t)
            # an event may have woken a parked node with an earlier clock
            alive = [n for n in self.nodes if not n.done and not n.parked]
            lo2 = min(alive, key=lambda n: (n.t, n.idx))
            if lo2 is me:
                return
            lo = lo2
        else:
            self.run_until(lo.t)
            alive = [n for n in self.nodes if not n.done and not n.parked]
            lo = min(alive, key=lambda n: (n.t, n.idx))
            if lo is me:
                return
        self.switches += 1
        self.cur = lo
        lo.sem.release()
        me.sem.acquire()

    # ---- API used by the repo modules (bound as their `time`)
    def sleep(self, s):
        self.advance(max(0.0, s) * 1e9 + 1000)

    def monotonic_ns(self):
        self.advance(2000)
        return self.now

    def monotonic(self):
        self.advance(2000)
        return self.now / 1e9

    def time(self):
        return self.monotonic()

    # ---- parking: an idle node blocks until `cond()` is true or virtual time `until` is reached
    def park(self, cond, until):
        me = self.cur
        if me is None:  # single-thread mode: just run the clock forward
            while not cond() and self.boot_t < until:
                nxt = self.ev[0][0] if self.ev else until
                self.boot_t = max(self.boot_t, min(nxt, until))
                self.run_until(self.boot_t)
            return
        if cond() or me.t >= until:
            return
        me.parked = True
        me.wake_cond = cond
        me.wake_at = until
        self.at(until, self._wake, me)
        alive = [n for n in self.nodes if not n.done and not n.parked]
        while not alive:
            # everybody idle: fire the next event (possibly a wake-up)
            if not self.ev:
                raise RuntimeError("scheduler dead-lock: all nodes parked, no events")
            tt, _, fn, a = heapq.heappop(self.ev)
            fn(tt, *a)
            alive = [n for n in self.nodes if not n.done and not n.parked]
        lo = min(alive, key=lambda n: (n.t, n.idx))
        if lo is me:
            return
        self.switches += 1
        self.cur = lo
        lo.sem.release()
        me.sem.acquire()
        if self.abort:
            raise WatchdogExpired()

    def _wake(self, t, node):
        if node.parked and (t >= node.wake_at or node.wake_cond()):
            node.parked = False
            node.t = max(node.t, t)

    def poke(self, t):
        """called by chips when something observable happened: wake parked nodes whose condition holds"""
        for n in self.nodes:
            if n.parked and n.wake_cond():
                n.parked = False
                n.t = max(n.t, t + (self.rng.randrange(20_000, 200_000) if self.jitter else 50_000))

    # ---- threads
    def spawn(self, fn, name=""):
        n = _Node(self, fn, name)
        self.nodes.append(n)
        return n

    def run(self):
        for n in self.nodes:
            n.t = self.boot_t
            n.thread.start()
        first = self.nodes[0]
        self.cur = first
        first.sem.release()
        for n in self.nodes:
            n.thread.join()
        self.cur = None
        self.boot_t = max([self.boot_t] + [n.t for n in self.nodes])
        return [(n.name, n.exc) for n in self.nodes if n.exc]


class _Node:
    def __init__(self, s, fn, name):
        self.s = s
        self.t = 0
        self.idx = len(s.nodes)
        self.done = False
        self.parked = False
        self.wake_cond = None
        self.wake_at = 0
        self.exc = None
        self.name = name
        self.deadline = None
        self.sem = threading.Semaphore(0)

        def body():
            self.sem.acquire()
            try:
                fn()
            except WatchdogExpired:
                self.exc = "WatchdogExpired"
            except BaseException:  # noqa
                import traceback
                self.exc = traceback.format_exc()
            finally:
                self.done = True
                self.parked = False
                while True:
                    alive = [n for n in s.nodes if not n.done and not n.parked]
                    if alive or not [n for n in s.nodes if not n.done]:
                        break
                    if not s.ev:
                        # remaining nodes parked forever: abort them
                        s.abort = True
                        for n in s.nodes:
                            if not n.done:
                                n.parked = False
                        alive = [n for n in s.nodes if not n.done]
                        break
                    tt, _, f2, a = heapq.heappop(s.ev)
                    f2(tt, *a)
                if alive:
                    nxt = min(alive, key=lambda n: (n.t, n.idx))
                    s.run_until(nxt.t)
                    s.cur = nxt
                    nxt.sem.release()

        self.thread = threading.Thread(target=body, daemon=True)


class Air:
    """shared medium.  `fates` is an optional script consumed one entry per PTX attempt:
    'D' delivered (and ACK returned), 'P' packet lost, 'A' packet delivered but the ACK is lost."""

    def __init__(self, s):
        self.s = s
        self.chips = []
        self.log = []        # ground truth of every packet on air
        self.fates = []      # scripted fates
        self.fate_fn = None  # or a callable(pkt) -> 'D'|'P'|'A'
        self.acceptor = None  # phantom PRX: callable(chip, pkt) -> ack payload bytes | None
        self.active = []     # [(t0, t1, ch, id)] transmissions for collision detection
        self.collisions = True
        self.keep_log = True

    def next_fate(self, pkt):
        if self.fates:
            return self.fates.pop(0)
        if self.fate_fn:
            return self.fate_fn(pkt)
        return "D"

    def phantom_tx(self, addr, ch, aw, rate=0, crc=2, data=b"probe", pid=3, noack=True):
        """a packet from a transmitter that is not a simulated chip; returns [(chip name, pipe, how)]"""
        t = self.s.now
        pkt = dict(addr=bytes(addr), ch=ch, pid=pid, noack=noack, data=bytes(data), src="phantom", rate=rate, crc=crc, aw=aw)
        rxs = []
        for c in self.chips:
            if not c.can_hear(t - 1):
                continue
            if c.r[5] != ch or c.aw() != aw or c.rate() != rate or c.crc_len() != crc:
                continue
            for p in range(6):
                if c.r[2] & (1 << p) and c.pipe_addr(p) == pkt["addr"]:
                    a, how = c.receive(t, p, pkt)
                    rxs.append((c.name, p, how))
                    break
        return rxs

    def occupy(self, t0, t1, ch, who):
        self.active = [a for a in self.active if a[1] > t0 - 10_000_000]
        self.active.append((t0, t1, ch, who))

    def collided(self, t0, t1, ch, who):
        if not self.collisions:
            return False
        for (a0, a1, c, w) in self.active:
            if w is not who and c == ch and a0 < t1 and t0 < a1:
                return True
        return False


class Chip:
    def __init__(self, air, name, plus=True):
        self.air = air
        self.s = air.s
        self.name = name
        self.plus = plus
        air.chips.append(self)
        self.spi_base_ns = 4000   # per-transaction MCU + bus overhead
        self.reset()

    def reset(self):
        self.r = dict(RESET)
        self.addr = {0x0A: bytearray(b"\xe7" * 5), 0x0B: bytearray(b"\xc2" * 5), 0x10: bytearray(b"\xe7" * 5)}
        self.tx = []          # TX FIFO entries: dict(kind='tx'|'ack', data, noack, pid, pipe)
        self.rx = []          # RX FIFO entries: (pipe, bytes)
        self.ce = False
        self.busy = False     # PTX engine inside an ESB cycle
        self.arc_cnt = 0
        self.plos = 0
        self.pid = 0
        self.last_rx = None   # (addr, pid, noack, payload) of the previous packet (PID/CRC duplicate filter)
        self.pending_ack = {}  # pipe -> ack entry already attached to an ACK, released on next new packet
        self.rx_since = None
        self.txing_until = 0
        self.lock_until = 0
        self.feat_unlocked = self.plus
        self.reuse = False
        self.illegal = []     # out-of-range / reserved-bit writes (C03.NoIllegalWrite)
        self.spi_log = None   # list to record (t, mosi, miso) when tracing is on
        self.pop_log = getattr(self, "pop_log", None)   # shared list recording every R_RX_PAYLOAD that returned a payload
        self.written = []     # registers written since last clear (C03.Frame)
        self.cycle = 0
        self.rpd = 0
        self.cw_events = []
        self.last_st = 0x0E
        self.cfg_writes = []  # [old PWR_UP|PRIM_RX, new, CE] at every CONFIG write (C08.CE)

    # ---- derived state
    def aw(self):
        return self.r[3] + 2

    def status(self):
        return (self.r[7] & 0x70) | ((self.rx[0][0] if self.rx else 7) << 1) | (1 if len(self.tx) >= 3 else 0)

    def fifo_status(self):
        return ((1 if not self.rx else 0) | (2 if len(self.rx) >= 3 else 0) | (0x10 if not self.tx else 0)
                | (0x20 if len(self.tx) >= 3 else 0) | (0x40 if self.reuse else 0))

    def irq_low(self):
        return bool((self.r[7] & 0x70) & ~(self.r[0] & 0x70))

    def pipe_addr(self, p):
        if p < 2:
            return bytes(self.addr[0x0A + p][: self.aw()])
        return bytes([self.r[0x0A + p]]) + bytes(self.addr[0x0B][1: self.aw()])

    def crc_len(self):
        c = self.r[0]
        if self.r[1] & 0x3F or c & 8:
            return 2 if c & 4 else 1
        return 0

    def rate(self):
        return self.r[6] & 0x28

    def feature(self):
        return self.r[0x1D] if self.feat_unlocked else 0

    def dynpd(self):
        return self.r[0x1C] if self.feat_unlocked else 0

    def proj(self):
        """projection of the true radio state used in trace events"""
        d = {("r%02X" % k): v for k, v in self.r.items() if k not in (7, 8, 9, 0x17)}
        d["r1C"] = self.dynpd()
        d["r1D"] = self.feature()
        d["r07"] = self.status()
        d["r08"] = (self.plos << 4) | self.arc_cnt
        d["r17"] = self.fifo_status()
        d["p0"] = list(self.addr[0x0A])
        d["p1"] = list(self.addr[0x0B])
        d["txa"] = list(self.addr[0x10])
        d["ce"] = int(self.ce)
        d["irq"] = int(self.irq_low())
        d["ntx"] = len(self.tx)
        d["nrx"] = len(self.rx)
        return d

    # ---- SPI
    def xfer(self, out):
        out = bytes(out)
        self.s.advance(self.spi_base_ns + 800 * len(out))
        st = self.status()  # STATUS is shifted out while the command byte is shifted in (datasheet 8.3.1)
        self.last_st = st
        cmd = out[0]
        data = out[1:]
        resp = bytearray(len(out))
        resp[0] = st
        if cmd < 0x20:  # R_REGISTER
            if cmd in self.addr:
                v = bytes(self.addr[cmd])
            elif cmd == 7:
                v = bytes([st])
            elif cmd == 0x17:
                v = bytes([self.fifo_status()])
            elif cmd == 8:
                v = bytes([(self.plos << 4) | self.arc_cnt])
            elif cmd == 9:
                v = bytes([self.rpd])
            elif cmd == 0x1C:
                v = bytes([self.dynpd()])
            elif cmd == 0x1D:
                v = bytes([self.feature()])
            else:
                v = bytes([self.r.get(cmd, 0)])
            for i in range(1, len(out)):
                resp[i] = v[i - 1] if i - 1 < len(v) else 0
        elif cmd < 0x40:  # W_REGISTER
            reg = cmd & 0x1F
            self.written.append(reg)
            if reg in self.addr:
                if len(data) > 5:
                    self.illegal.append((reg, list(data), "address longer than 5 bytes"))
                n = min(5, len(data))
                self.addr[reg][:n] = data[:n]
            elif not data:
                pass
            elif reg == 7:
                self.r[7] &= ~(data[0] & 0x70)
            elif reg in (8, 9, 0x17):
                pass  # read-only
            elif reg in WMASK:
                v = data[0]
                if v & ~WMASK[reg] & 0xFF:
                    self.illegal.append((reg, v, "reserved bits"))
                if 0x11 <= reg <= 0x16 and (v & 0x3F) > 32:
                    self.illegal.append((reg, v, "RX_PW > 32"))
                if reg == 5 and (v & 0x7F) > 125:
                    self.illegal.append((reg, v, "RF_CH > 125"))
                if reg == 6 and (v & 0x28) == 0x28:
                    self.illegal.append((reg, v, "both data-rate bits"))
                if reg in (0x1C, 0x1D) and not self.feat_unlocked:
                    pass
                else:
                    if reg == 0:
                        self.cfg_writes.append([self.r[0] & 3, v & 3, int(self.ce)])
                    self.r[reg] = v & WMASK[reg]
                if reg == 5:
                    self.plos = 0
            else:
                self.illegal.append((reg, list(data), "unknown register"))
            self.mode_changed()
            self.kick()
        elif cmd == 0x50:  # ACTIVATE (non-plus only)
            if not self.plus and data[:1] == b"\x73":
                self.feat_unlocked = not self.feat_unlocked
        elif cmd == 0x61:  # R_RX_PAYLOAD
            if self.rx:
                pl = self.rx[0][1]
                for i in range(1, len(out)):
                    resp[i] = pl[i - 1] if i - 1 < len(pl) else 0
                if self.pop_log is not None:      # linearisation point of "the driver took a payload out of the RX FIFO"
                    self.pop_log.append((self.s.now, self.name, self.rx[0][0], bytes(pl)))
                self.rx.pop(0)
        elif cmd == 0x60:  # R_RX_PL_WID
            if len(out) > 1:
                resp[1] = len(self.rx[0][1]) if self.rx else 0
        elif cmd in (0xA0, 0xB0):  # W_TX_PAYLOAD / W_TX_PAYLOAD_NOACK
            if len(data) > 32 or not data:
                self.illegal.append((cmd, len(data), "TX payload length"))
            if len(self.tx) < 3:
                self.pid = (self.pid + 1) & 3
                noack = bool(cmd == 0xB0 and self.feature() & 1)
                self.nloads = getattr(self, "nloads", 0) + 1
                self.tx.append(dict(kind="tx", data=bytes(data[:32]), noack=noack, pid=self.pid, load=self.nloads))
                self.reuse = False
            self.kick()
        elif 0xA8 <= cmd <= 0xAD:  # W_ACK_PAYLOAD
            if len(data) > 32 or not data:
                self.illegal.append((cmd, len(data), "ACK payload length"))
            if len(self.tx) < 3:
                self.tx.append(dict(kind="ack", pipe=cmd & 7, data=bytes(data[:32])))
        elif cmd == 0xE1:  # FLUSH_TX
            self.tx.clear()
            self.pending_ack.clear()
            self.reuse = False
            self.cycle += 1  # an ESB cycle in progress ends (no more retransmissions of a flushed payload)
            self.busy = False
        elif cmd == 0xE2:  # FLUSH_RX
            self.rx.clear()
        elif cmd == 0xE3:  # REUSE_TX_PL
            self.reuse = True
        elif cmd == 0xFF:
            pass
        else:
            self.illegal.append((cmd, list(data), "unknown command"))
        if self.spi_log is not None:
            self.spi_log.append((self.s.now, list(out), list(resp)))
        return resp

    # ---- pins / mode
    def set_ce(self, v):
        v = bool(v)
        if v != self.ce:
            self.ce = v
            self.mode_changed()
            self.kick()

    def listening_now(self):
        return bool(self.r[0] & 2 and self.r[0] & 1 and self.ce)

    def mode_changed(self):
        if self.listening_now():
            if self.rx_since is None:
                self.rx_since = self.s.now + T_SETTLE
        else:
            self.rx_since = None

    def can_hear(self, t0):
        return self.rx_since is not None and self.rx_since <= t0 and self.txing_until <= t0

    # ---- PTX engine
    def head_tx(self):
        """the TX FIFO is ONE queue: in PTX mode its head goes out whatever command loaded it - an ACK payload left over
        from a turn as receiver is transmitted like any other payload (why the drivers flush on leaving RX mode)"""
        if not self.tx:
            return None
        e = self.tx[0]
        if e["kind"] == "ack" and "pid" not in e:
            self.pid = (self.pid + 1) & 3
            e.update(noack=False, pid=self.pid, load=0)
        return e

    def kick(self):
        if self.busy or not self.ce or not self.r[0] & 2 or self.r[0] & 1 or self.r[7] & 0x10:
            return
        if self.r[6] & 0x80:
            return  # continuous carrier: no packets
        ent = self.head_tx()
        if ent is None:
            return
        self.busy = True
        self.arc_cnt = 0
        self.cycle += 1
        self.s.at(self.s.now + T_SETTLE, self.tx_start, ent, self.cycle)

    def air_time(self, n):
        bits = (1 + self.aw() + n + self.crc_len()) * 8 + 9
        return int(bits * 1e9 / RATE_BPS[self.rate()])

    def tx_start(self, t, ent, cyc):
        if cyc != self.cycle or ent not in self.tx:
            return
        t1 = t + self.air_time(len(ent["data"]))
        self.air.occupy(t, t1, self.r[5], self)
        # capture model: a receiver that matches the address locks onto the first packet and misses packets
        # addressed to it that start while it is locked; a radio that is transmitting hears nothing
        addr, aw = bytes(self.addr[0x10][: self.aw()]), self.aw()
        locked = []
        for c in self.air.chips:
            if c is self or not c.can_hear(t) or c.lock_until > t:
                continue
            if c.r[5] != self.r[5] or c.aw() != aw or c.rate() != self.rate() or c.crc_len() != self.crc_len():
                continue
            if any(c.r[2] & (1 << p) and c.pipe_addr(p) == addr for p in range(6)):
                c.lock_until = t1
                locked.append(c)
        self.s.at(t1, self.tx_end, ent, t, cyc, locked)

    def tx_end(self, t, ent, t0, cyc, locked=None):
        air = self.air
        pkt = dict(addr=bytes(self.addr[0x10][: self.aw()]), ch=self.r[5], pid=ent["pid"], noack=ent["noack"],
                   data=ent["data"], src=self.name, rate=self.rate(), crc=self.crc_len(), aw=self.aw())
        fate = air.next_fate(pkt)
        if fate != "P" and air.collisions == "destructive" and air.collided(t0, t, pkt["ch"], self):
            fate = "C"
        want_ack = bool(self.r[1] & 1) and not ent["noack"]
        acked = None
        acker = None
        rxs = []
        if fate in ("D", "A"):
            for c in air.chips:
                if c is self or not c.can_hear(t0):
                    continue
                if locked is not None and c not in locked:
                    continue        # locked onto another packet (or not matching) when this one started
                if c.r[5] != pkt["ch"] or c.aw() != pkt["aw"] or c.rate() != pkt["rate"] or c.crc_len() != pkt["crc"]:
                    continue
                for p in range(6):
                    if c.r[2] & (1 << p) and c.pipe_addr(p) == pkt["addr"]:
                        a, how = c.receive(t, p, pkt)
                        rxs.append((c.name, p, how))
                        if a is not None:
                            acked, acker = a, c
                        break
            if air.acceptor and not rxs:
                acked = air.acceptor(self, pkt)
        ack_ok = False
        ack_t = t
        if want_ack and acked is not None:
            ack_t = t + T_SETTLE + self.air_time(len(acked))
            if acker is not None:
                air.occupy(t + T_SETTLE, ack_t, pkt["ch"], acker)
            can_rx_ack = bool(self.r[2] & 1) and bytes(self.addr[0x0A][: self.aw()]) == pkt["addr"]
            ack_ok = fate == "D" and can_rx_ack
        if air.keep_log:
            air.log.append(dict(t=t // 1000, src=self.name, addr=list(pkt["addr"]), ch=pkt["ch"], pid=pkt["pid"],
                                noack=int(pkt["noack"]), data=list(pkt["data"]), fate=fate,
                                rx=[list(x) for x in rxs], want_ack=int(want_ack),
                                ack=(None if acked is None else list(acked)), ack_ok=int(ack_ok),
                                aa0=self.r[1] & 1, cyc=cyc, load=ent.get("load", 0)))
        if cyc != self.cycle:
            return  # cycle was ended by FLUSH_TX while the packet was on air
        if not want_ack:
            return self.tx_done(t, ent, None, cyc)
        if ack_ok:
            self.s.at(ack_t, self.tx_done, ent, acked, cyc)
        else:
            self.s.at(t + ((self.r[4] >> 4) + 1) * 250_000, self.ack_timeout, ent, cyc)

    def receive(self, t, p, pkt):
        """PRX side. returns (ack payload | None, 'new'|'dup'|'full'|'len')"""
        dyn = bool(self.feature() & 4 and self.dynpd() & (1 << p))
        if not dyn and self.r[0x11 + p] != len(pkt["data"]):
            return None, "len"
        if not dyn and self.r[0x11 + p] == 0:
            return None, "len"
        sig = (pkt["addr"], pkt["pid"], pkt["noack"], pkt["data"])
        aa = bool(self.r[1] & (1 << p))
        dup = aa and self.last_rx == sig
        how = "dup"
        if not dup:
            if len(self.rx) >= 3:
                return None, "full"
            # previous ACK payload of this pipe is now known to have been delivered
            pend = self.pending_ack.pop(p, None)
            if pend is not None and pend in self.tx:
                self.tx.remove(pend)
                self.r[7] |= 0x20
            self.rx.append((p, pkt["data"]))
            self.r[7] |= 0x40
            self.last_rx = sig
            how = "new"
            self.s.poke(t)
        if aa and not pkt["noack"]:
            ackpl = b""
            if self.feature() & 2 and dyn:
                e = self.pending_ack.get(p)
                if e is None:
                    e = next((x for x in self.tx if x["kind"] == "ack" and x["pipe"] == p), None)
                    if e is not None:
                        self.pending_ack[p] = e
                if e is not None:
                    ackpl = e["data"]
            self.txing_until = t + T_SETTLE + self.air_time(len(ackpl))
            return ackpl, how
        return None, how

    def tx_done(self, t, ent, ackpl, cyc):
        if cyc != self.cycle:
            return
        if ent in self.tx and not self.reuse:
            self.tx.remove(ent)
        self.r[7] |= 0x20
        if ackpl and len(self.rx) < 3:
            self.rx.append((0, bytes(ackpl)))
            self.r[7] |= 0x40
        self.busy = False
        self.s.poke(t)
        self.kick()

    def ack_timeout(self, t, ent, cyc):
        if cyc != self.cycle:
            return
        if ent not in self.tx:
            self.busy = False
            return
        if self.arc_cnt < (self.r[4] & 0xF):
            self.arc_cnt += 1
            self.s.at(t + T_SETTLE, self.tx_start, ent, cyc)
        else:
            self.r[7] |= 0x10
            self.plos = min(15, self.plos + 1)
            self.busy = False
            self.s.poke(t)

    # ---- injection by a phantom transmitter (harness only)
    def inject(self, pipe, data, pid=None, noack=True):
        """put a packet into this PRX as if a compatible phantom PTX had sent it to pipe `pipe`"""
        self.s.run_until(self.s.now)
        if pid is None:
            self._inj_pid = (getattr(self, "_inj_pid", 0) + 1) & 3
            pid = self._inj_pid
        pkt = dict(addr=self.pipe_addr(pipe), pid=pid, noack=noack, data=bytes(data))
        if not (self.listening_now() and self.r[2] & (1 << pipe)):
            return None, "deaf"
        return self.receive(self.s.now, pipe, pkt)


class FakeSpiDev:
    """name ends in 'SpiDev' -> the driver takes the SPIDevCtx / xfer2 path"""

    def __init__(self, chip):
        self.chip = chip
        self.no_cs = False
        self.opened = 0

    def open(self, bus, dev):
        self.opened += 1

    def close(self):
        self.opened -= 1

    def xfer2(self, out, baud=0):
        return list(self.chip.xfer(bytes(out)))


class FakeBusioSPI:
    """busio-style bus for the real adafruit_bus_device.SPIDevice (CS framing, extra clocks)"""

    def __init__(self, chip):
        self.chip = chip
        self.locked = False
        self.cs = None
        self.stray = 0  # bytes clocked while CS is high (extra_clocks) - must not reach the chip

    def try_lock(self):
        if self.locked:
            return False
        self.locked = True
        return True

    def unlock(self):
        self.locked = False

    def configure(self, baudrate=100000, polarity=0, phase=0, bits=8):
        pass

    def write(self, buf, start=0, end=None):
        end = len(buf) if end is None else end
        if self.cs is not None and self.cs.value:
            self.stray += end - start
            return
        self.chip.xfer(bytes(buf[start:end]))

    def write_readinto(self, out, inb, out_start=0, out_end=None, in_start=0, in_end=None):
        out_end = len(out) if out_end is None else out_end
        in_end = len(inb) if in_end is None else in_end
        if self.cs is not None and self.cs.value:
            raise RuntimeError("SPI transfer while CSN is high")
        r = self.chip.xfer(bytes(out[out_start:out_end]))
        n = min(in_end - in_start, len(r))
        inb[in_start:in_start + n] = r[:n]


class Pin:
    """digitalio-like pin; drives the chip's CE when `chip` is given"""

    def __init__(self, chip=None):
        self._v = False
        self.chip = chip
        self.edges = 0

    def switch_to_output(self, value=False, **kw):
        self.value = value

    @property
    def value(self):
        return self._v

    @value.setter
    def value(self, v):
        self._v = bool(v)
        self.edges += 1
        if self.chip:
            self.chip.set_ce(v)


_REPO_MODS = ("circuitpython_nrf24l01.rf24", "circuitpython_nrf24l01.rf24_lite", "circuitpython_nrf24l01.rf24_mesh",
              "circuitpython_nrf24l01.network.mixins", "adafruit_bus_device.spi_device")


def install(s, repo=None):
    """import the repo modules from the working tree and rebind their `time` to the scheduler"""
    repo = repo or os.environ.get("VERIF_REPO", "/repo")
    if repo not in sys.path:
        sys.path.insert(0, repo)
    import importlib
    for name in _REPO_MODS:
        m = importlib.import_module(name)
        m.time = s
    return s


def new_radio(air, name="r", cls=None, spidev=True, plus=True, **kw):
    """construct a driver object of class `cls` on a fresh chip. returns (obj, chip)"""
    c = Chip(air, name, plus=plus)
    if cls is None:
        from circuitpython_nrf24l01.rf24 import RF24 as cls
    if spidev:
        o = cls(FakeSpiDev(c), 0, Pin(c), **kw)
    else:
        bus = FakeBusioSPI(c)
        cs = Pin()
        bus.cs = cs
        o = cls(bus, cs, Pin(c), **kw)
        o._vbus = bus
    return o, c
