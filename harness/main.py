"""entry point: ./check <Cnn> [--tier quick|thorough] [--replay file]"""
import argparse
import importlib
import os
import sys
import traceback

ROOT = os.path.dirname(os.path.dirname(os.path.abspath(__file__)))
sys.path.insert(0, ROOT)
REPO = os.environ.get("VERIF_REPO", "/repo")
sys.path.insert(0, REPO)


def main():
    ap = argparse.ArgumentParser()
    ap.add_argument("prop")
    ap.add_argument("--tier", default=os.environ.get("VERIF_TIER", "quick"), choices=["quick", "thorough"])
    ap.add_argument("--replay")
    a = ap.parse_args()
    seed = int(os.environ.get("VERIF_SEED", "0") or 0)
    pid = a.prop.upper()
    from harness.ev import Check
    from harness import tlc
    # last line of defence against a change that makes the code under test spin without advancing virtual time: a wall-clock
    # limit far above any tier's normal duration (quick < 3 min, thorough < 20 min per property on this machine)
    import signal

    def _wall(signum, frame):
        print("MACHINERY-FAILURE: wall-clock limit reached (a call into the code under test does not return and does not "
              "advance virtual time); no verdict")
        try:
            _kill_descendants(os.getpid())
        finally:
            os._exit(2)
    signal.signal(signal.SIGALRM, _wall)
    signal.alarm(int(os.environ.get("VERIF_WALL_S", "2400" if a.tier == "quick" else "14400")))
    try:
        mod = importlib.import_module("checks." + pid.lower())
        chk = Check(pid, a.tier, seed, level=getattr(mod, "LEVEL", "model_checking"))
        if a.replay:
            # deterministic replay: the exploration that produced the file is repeated with the stored tier and seed
            # (every scenario is a pure function of them) and the stored witness key must show up again
            import json
            rec = json.load(open(a.replay))
            chk = Check(pid, rec.get("tier", a.tier), rec.get("seed", seed), level=getattr(mod, "LEVEL", "model_checking"))
            if hasattr(mod, "replay"):
                sys.exit(mod.replay(chk, a.replay))
            mod.run(chk)
            hit = [v for v in chk.violations if v["key"] == rec.get("key")]
            print("REPLAY %s: witness key %r %s" % (pid, rec.get("key"), "reproduced" if hit else "NOT reproduced"))
            if hit:
                print("VIOLATION property=%s replay=%s" % (pid, a.replay))
            sys.exit(1 if hit else 0)
        mod.run(chk)
        rc = chk.finish()
    except tlc.TlcError as e:
        print("MACHINERY-FAILURE (TLC): %s" % e)
        _cleanup()
        sys.exit(2)
    except SystemExit:
        raise
    except BaseException:
        traceback.print_exc()
        print("MACHINERY-FAILURE: unexpected exception in the harness (not a verdict about the code)")
        sys.exit(2)
    _cleanup()
    sys.exit(rc)


def _kill_descendants(root):
    """terminate every process below `root` (pool workers, TLC JVMs) - found through /proc, nothing else is touched"""
    import signal
    kids = {}
    for d in os.listdir("/proc"):
        if d.isdigit():
            try:
                with open("/proc/%s/stat" % d) as f:
                    st = f.read()
                ppid = int(st[st.rindex(")") + 2:].split()[1])
                kids.setdefault(ppid, []).append(int(d))
            except (OSError, ValueError):
                pass
    todo, seen = [root], []
    while todo:
        p_ = todo.pop()
        for k in kids.get(p_, []):
            seen.append(k)
            todo.append(k)
    for k in seen:
        try:
            os.kill(k, signal.SIGKILL)
        except OSError:
            pass


def _cleanup():
    import shutil
    from harness import tlc
    shutil.rmtree(tlc.WORK, ignore_errors=True)


if __name__ == "__main__":
    main()
