"""Two radios on the simulated air, configured compatibly through the public API, and the recording of
send()/write()/resend()/read() calls with the air's ground truth for TraceLink.tla (C01, C02, C20)."""
from . import sim

BASE = b"\xB1\xB2\xB3\xB4\xB5"
P0ADDR = b"\xA0\xA1\xA2\xA3\xA4"


def rx_address(pipe, aw):
    if pipe == 0:
        return P0ADDR[:aw]
    if pipe == 1:
        return BASE[:aw]
    return bytes([0xC0 + pipe]) + BASE[1:aw]


class LinkPair:
    def __init__(self, cfg, tx_lite=False, rx_lite=False, tx_spidev=True, rx_spidev=True, seed=0):
        self.cfg = dict(cfg)
        c = self.cfg
        self.s = sim.Sched(seed=seed)
        self.air = sim.Air(self.s)
        sim.install(self.s)
        from circuitpython_nrf24l01.rf24 import RF24
        from circuitpython_nrf24l01.rf24_lite import RF24 as Lite
        self.tx, self.tchip = sim.new_radio(self.air, "tx", cls=Lite if tx_lite else RF24, spidev=tx_spidev and not tx_lite)
        self.rx, self.rchip = sim.new_radio(self.air, "rx", cls=Lite if rx_lite else RF24, spidev=rx_spidev and not rx_lite)
        self.tx_lite, self.rx_lite = tx_lite, rx_lite
        aw, pipe = c.get("aw", 5), c.get("pipe", 1)
        for r, lite in ((self.tx, tx_lite), (self.rx, rx_lite)):
            if not lite:
                r.__enter__()
            else:
                r.power = True
            r.channel = c.get("ch", 76)
            r.data_rate = c.get("rate", 1)
            if not lite:
                r.crc = 2 if (tx_lite or rx_lite) else c.get("crc", 2)   # rf24_lite is fixed to 2-byte CRC
            r.address_length = aw
            r.dynamic_payloads = bool(c.get("dyn", True))
            if not c.get("dyn", True):
                r.payload_length = c.get("pl", 32)
            r.arc = c.get("arc", 15)
            r.ard = c.get("ard", 1500)
        if c.get("ackpl"):
            self.tx.ack = True
            self.rx.ack = True
        if c.get("no_dyn_ack") and not tx_lite:
            self.tx.allow_ask_no_ack = False
        if not c.get("aa0", True) and not tx_lite:
            self.tx.set_auto_ack(False, 0)
        if c.get("rx_p0_static") and not rx_lite:
            # per-pipe payload-length modes: the receiver's pipe 0 is static, the pipe in use stays dynamic
            self.rx.set_dynamic_payloads(False, 0)
            self.rx.set_payload_length(c.get("pl", 32), 0)
        if pipe >= 2:
            self.rx.open_rx_pipe(1, rx_address(1, aw))
        self.rx.open_rx_pipe(pipe, rx_address(pipe, aw) if pipe < 2 else rx_address(pipe, aw)[:1])
        self.rx.listen = True
        self.tx.listen = False
        self.tx.open_tx_pipe(rx_address(pipe, aw))
        self.s.advance(300_000)
        self.nack = 0
        # a third, unrelated radio object of the same program (another chip, another link) configured afterwards and
        # differently: what one object is told never changes what another object does
        if c.get("decoy", True):
            d, _ = sim.new_radio(self.air, "decoy", cls=RF24)
            with d:
                d.channel = 9
                d.address_length = 3 if aw != 3 else 4
                d.dynamic_payloads = not c.get("dyn", True)
                d.payload_length = 5 if c.get("pl", 32) != 5 else 7
                d.set_auto_ack(False, 0)
                d.set_auto_retries(250, 1)
                d.crc = 1
                d.open_rx_pipe(1, b"dcoy1")
                d.open_rx_pipe(0, b"dcoy0")
                d.open_tx_pipe(b"dcoyT")
            self.s.advance(100_000)

    def tla_cfg(self):
        c = self.cfg
        crc = 2 if (self.tx_lite or self.rx_lite) else c.get("crc", 2)
        if crc == 0 and (c.get("aa0", True) or True):
            crc = 1 if self.tchip.crc_len() == 1 else self.tchip.crc_len()
        # ack=True switches dynamic payloads on for pipe 0 (which also governs what the PTX transmits): with a static
        # configuration established first, the link over pipe 0 is a dynamic-payload link
        dyn = bool(c.get("dyn", True)) or bool(c.get("ackpl") and c.get("pipe", 1) == 0 and not (self.tx_lite or self.rx_lite))
        return dict(dyn=dyn, pl=c.get("pl", 32), rxdyn=dyn, rxpl=c.get("pl", 32),
                    rxpipe=c.get("pipe", 1), aw=c.get("aw", 5), arc=c.get("arc", 15), ard=c.get("ard", 1500),
                    crc=self.tchip.crc_len(), kbps={1: 1000, 2: 2000, 250: 250}[c.get("rate", 1)],
                    ackpl=bool(c.get("ackpl")), lite_tx=self.tx_lite, lite_rx=self.rx_lite, aa0=bool(c.get("aa0", True)),
                    dynack=bool(self.tx_lite or not c.get("no_dyn_ack")))

    # ---- recording
    def _air_since(self, n0):
        out = []
        for p in self.air.log[n0:]:
            if p["src"] != "tx":
                continue
            out.append(dict(data=p["data"], fate=p["fate"], new=any(x[0] == "rx" and x[2] == "new" for x in p["rx"]),
                            want_ack=bool(p["want_ack"]), has_ack=p["ack"] is not None, ack=p["ack"] or [],
                            ack_ok=bool(p["ack_ok"]), pipe=(p["rx"][0][1] if p["rx"] else -1)))
        return out

    def settle(self, limit_ns=400_000_000):
        """let virtual time pass until the PTX engine is idle (background retransmissions would show up here)"""
        end = self.s.now + limit_ns
        self.s.park(lambda: not self.tchip.busy and not self.s.ev, end)
        self.s.advance(50_000)

    def _res(self, r):
        if isinstance(r, bool):
            return {"t": "bool", "v": r}
        if isinstance(r, (bytes, bytearray)):
            return {"t": "bytes", "v": list(r)}
        if isinstance(r, list):
            return {"t": "list", "v": [self._res(x) for x in r]}
        if r is None:
            return {"t": "none", "v": False}
        return {"t": "other", "v": False}

    def call(self, api, buf=None, ask_no_ack=False, fr=0, send_only=False, fates=None, bound_ns=3_000_000_000, pre=None):
        """api in send/write/resend.  buf: bytes/bytearray (kept by identity) or list of them.
        pre (rf24_lite transmitter only, whose write() powers the radio up by itself): "sleep" = power down first
        ("rx" = listen first is available for probing; sending straight out of RX mode is not a documented use and fails:
        pipe 0 stays closed, so no ACK is heard)"""
        if pre == "sleep":
            self.tx.power = False
            self.s.advance(200_000)
        elif pre == "rx":
            self.tx.listen = True
            self.s.advance(300_000)
        if fates is not None:
            self.air.fates = list(fates)
        n0 = len(self.air.log)
        self.tchip.spi_log = []
        t0 = self.s.now
        self.s.deadline = t0 + bound_ns
        exc, res = "none", None
        before = None
        if buf is not None and not isinstance(buf, (list, tuple)):
            before = bytes(buf)
        elif buf is not None:
            before = [bytes(b) for b in buf]
        try:
            if api == "send":
                res = self.tx.send(buf, ask_no_ack=ask_no_ack, force_retry=fr, send_only=send_only)
            elif api == "write":
                res = self.tx.write(buf, ask_no_ack=ask_no_ack)
            else:
                res = self.tx.resend(send_only=send_only)
        except sim.WatchdogExpired:
            exc = "Hang"
        except Exception as e:  # noqa
            exc = type(e).__name__
        self.s.deadline = None
        t1 = self.s.now
        ntx = sum(1 for (_, mosi, _) in self.tchip.spi_log if mosi[0] in (0xA0, 0xB0))
        self.tchip.spi_log = None
        if exc != "Hang":
            self.settle()
        self.air.fates = []
        ev = dict(k="resend" if api == "resend" else ("sendlist" if isinstance(buf, (list, tuple)) else "send"), api=api,
                  ask_no_ack=bool(ask_no_ack), fr=fr, send_only=bool(send_only), exc=exc, res=self._res(res),
                  t0=t0 // 1000, t1=t1 // 1000, air=self._air_since(n0), ntxcmd=ntx,
                  lossfree=bool(not fates and getattr(self, "peer_ok", True)), pre=pre or "none")
        if api != "resend":
            if isinstance(buf, (list, tuple)):
                ev["bufs"] = [list(b) for b in before]
                ev["buf_after"] = [list(b) for b in buf]
                ev["same_obj"] = all(len(a) == len(b) for a, b in zip(before, buf))
            else:
                ev["buf"] = list(before)
                ev["buf_after"] = list(bytes(buf))
                ev["same_obj"] = len(buf) == len(before)
        return ev

    def stream(self, bufs, ask_no_ack=False, while_listening=False):
        """the examples' streaming idiom: queue payloads with write(write_only=True) while CE is low, then raise CE
        (while_listening: the answers are queued while the radio is still in RX mode, then `listen = False`, then CE)"""
        n0 = len(self.air.log)
        self.s.deadline = self.s.now + 3_000_000_000
        exc, rets = "none", []
        try:
            if while_listening:
                self.tx.listen = True
                self.s.advance(300_000)
            self.tx.ce_pin = False
            for b in bufs:
                rets.append(bool(self.tx.write(b, ask_no_ack=ask_no_ack, write_only=True)))
            if while_listening:
                self.tx.listen = False
            self.tx.ce_pin = True
        except sim.WatchdogExpired:
            exc = "Hang"
        except Exception as e:  # noqa
            exc = type(e).__name__
        self.s.deadline = None
        if exc != "Hang":
            self.settle()
        try:
            self.tx.ce_pin = False
            self.tx.flush_tx()
            self.tx.clear_status_flags()
        except Exception:  # noqa
            pass
        return dict(k="stream", bufs=[list(b) for b in bufs], rets=rets, exc=exc, ask_no_ack=bool(ask_no_ack),
                    air=self._air_since(n0))

    def queue_only(self, n):
        """n payloads loaded with write(write_only=True) while CE is low and left there (nothing is transmitted)"""
        n0 = len(self.air.log)
        rets = []
        self.tx.ce_pin = False
        for i in range(n):
            rets.append(bool(self.tx.write(bytes([0xD0 + i, 0x11, i]), write_only=True)))
        return dict(k="queue", n=n, rets=rets, air=self._air_since(n0))

    def rxturn(self, n):
        """the transmitting radio takes a turn as receiver: listens, loads n ACK payloads nobody fetches, goes back to TX"""
        n0 = len(self.air.log)
        self.tx.listen = True
        self.s.advance(300_000)
        rets = [bool(self.tx.load_ack(bytes([0xAE, i, 0x55]), 1)) for i in range(n)]
        self.tx.listen = False
        self.s.advance(300_000)
        self.settle()
        return dict(k="rxturn", n=n, rets=rets, air=self._air_since(n0))

    def ctx(self, other=False):
        """the transmitting object leaves its `with` block and enters it again (other: a second RF24 object sharing the
        radio uses it in between) - what a failed call left behind must still be dealt with by the next call"""
        n0 = len(self.air.log)
        exc = "none"
        try:
            self.tx.__exit__(None, None, None)
            self.s.advance(200_000)
            self.tx.__enter__()
            self.s.advance(300_000)
        except Exception as e:  # noqa
            exc = type(e).__name__
        self.settle()
        return dict(k="ctx", exc=exc, air=self._air_since(n0))

    def txread(self):
        """the transmitting side reads whatever its RX FIFO holds (ACK payloads left there by send_only calls)"""
        n0 = len(self.air.log)
        got = []
        while len(got) < 4 and self.tx.available():
            got.append(list(self.tx.read() or b""))
        self.settle()
        return dict(k="txread", got=got, air=self._air_since(n0))

    def drain(self, limit=8):
        got = []
        while len(got) < limit and self.rx.available():
            pipe = self.rx.pipe
            data = self.rx.read()
            got.append([pipe if pipe is not None else -1, list(data) if data is not None else []])
        return dict(k="drain", got=got)

    def load_ack(self, data):
        pipe = self.cfg.get("pipe", 1)
        return self.rx.load_ack(data, pipe)
