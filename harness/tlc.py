"""TLC runner and output parsers: exhaustive model checking, state-graph export (dot with action labels),
-simulate behaviours, batch trace validation (total monitors printing one VERDICT per trace)."""
import json
import os
import re
import shutil
import subprocess
import time

JAR = "/opt/veriftools/tla/tla2tools.jar"
SPEC = os.path.join(os.path.dirname(os.path.dirname(os.path.abspath(__file__))), "spec")
WORK = os.path.join(os.path.dirname(os.path.dirname(os.path.abspath(__file__))), ".work", "p%d" % os.getpid())   # per process: checks may run concurrently


class TlcError(Exception):
    """machinery failure (exit 2), never a property verdict"""


def workdir(name):
    d = os.path.join(WORK, name)
    shutil.rmtree(d, ignore_errors=True)
    os.makedirs(d, exist_ok=True)
    return d


def _java_cmd(xmx="3g", deque=False, serial=False):
    cmd = ["java", "-XX:+UseSerialGC" if serial else "-XX:+UseParallelGC", "-Xmx" + xmx, "-Xss16m"]
    if serial:
        cmd += ["-XX:TieredStopAtLevel=4", "-XX:CICompilerCount=2"]
    if deque:
        cmd.append("-Dtlc2.tool.queue.IStateQueue=StateDeque")
    cp = JAR
    cm = "/opt/veriftools/tla/CommunityModules-deps.jar"
    for cand in (cm, "/opt/veriftools/tla/CommunityModules.jar"):
        if os.path.exists(cand):
            cp += ":" + cand
    cmd += ["-cp", cp, "tlc2.TLC"]
    return cmd


def run(module, cfg=None, wd=None, workers=16, timeout=600, args=(), env=None, xmx="3g", deque=False,
        use_wrapper=True, serial=False):
    """run TLC on spec/<module>.tla with spec/<cfg>.cfg; returns dict with stdout and parsed statistics"""
    cfg = cfg or module
    wd = wd or workdir("tlc_" + cfg)
    meta = os.path.join(wd, "meta_" + cfg)
    shutil.rmtree(meta, ignore_errors=True)
    if use_wrapper and shutil.which("tlc") and not deque and not serial:
        cmd = ["tlc"]
    else:
        cmd = _java_cmd(xmx, deque, serial)
    cmd += ["-workers", str(workers), "-metadir", meta, "-noGenerateSpecTE", "-config",
            os.path.join(SPEC, cfg + ".cfg")] + list(args) + [os.path.join(SPEC, module + ".tla")]
    e = dict(os.environ)
    if env:
        e.update({k: str(v) for k, v in env.items()})
    if deque:
        e["JAVA_TOOL_OPTIONS"] = (e.get("JAVA_TOOL_OPTIONS", "") + " -Dtlc2.tool.queue.IStateQueue=StateDeque").strip()
    t0 = time.time()
    try:
        p = subprocess.run(cmd, cwd=SPEC, env=e, capture_output=True, text=True, timeout=timeout)
    except subprocess.TimeoutExpired as ex:
        subprocess.run(["pkill", "-f", meta], capture_output=True)
        raise TlcError("TLC timeout after %ss: %s %s" % (timeout, module, cfg)) from ex
    finally:
        shutil.rmtree(meta, ignore_errors=True)
    out = p.stdout + p.stderr
    res = dict(stdout=out, rc=p.returncode, wall=time.time() - t0, module=module, cfg=cfg,
               cmd=" ".join(cmd[:1] + cmd[-4:]))
    m = re.search(r"(\d+) states generated, (\d+) distinct states found, (\d+) states left", out)
    if m:
        res["generated"], res["distinct"], res["left"] = int(m.group(1)), int(m.group(2)), int(m.group(3))
    m = re.search(r"The depth of the complete state graph search is (\d+)", out)
    if m:
        res["depth"] = int(m.group(1))
    m = re.search(r"Invariant (\S+) is violated", out)
    if m:
        res["violated"] = m.group(1)
    m = re.search(r"Action property (\S+) is violated|Temporal properties were violated", out)
    if m:
        res["violated"] = m.group(1) or "temporal"
    if "Deadlock reached" in out:
        res["violated"] = "deadlock"
    res["ok"] = ("Model checking completed. No error has been found" in out) or \
                ("Finished computing initial states" in out and "violated" not in res and p.returncode == 0)
    if "violated" in res:
        res["ok"] = False
        res["cex"] = parse_cex(out)
    if p.returncode not in (0, 12, 13) and "violated" not in res:
        # 12/13 = safety/liveness violation; anything else without a verdict is a machinery failure
        if not res["ok"]:
            raise TlcError("TLC failed rc=%s on %s/%s:\n%s" % (p.returncode, module, cfg, out[-3000:]))
    return res


def mc(module, cfg=None, expect_ok=True, **kw):
    """exhaustive model check that must succeed (the design satisfies its invariants)"""
    r = run(module, cfg, **kw)
    if expect_ok and not r["ok"]:
        raise TlcError("model check of %s/%s failed: %s\n%s" % (module, cfg or module, r.get("violated"),
                                                              r["stdout"][-3000:]))
    return r


def parse_cex(out):
    """counterexample states as list of (action, state-text)"""
    states = []
    for m in re.finditer(r"State (\d+): <([^>]*)>\n(.*?)(?=\n\n|\nState \d+:|\Z)", out, re.S):
        states.append((m.group(2).strip(), m.group(3).strip()))
    return states


def coverage_zero(out):
    """names of actions never taken in a `-coverage 1` run"""
    zero = []
    for m in re.finditer(r"<(\w+) line \d+, col \d+ to line \d+, col \d+ of module (\w+)>: (\d+):(\d+)", out):
        if int(m.group(3)) == 0 and int(m.group(4)) == 0:
            zero.append(m.group(1))
    return sorted(set(zero))


# ---------------------------------------------------------------------------------- TLA+ value parser
class _P:
    def __init__(self, s):
        self.s = s
        self.i = 0

    def ws(self):
        while self.i < len(self.s) and self.s[self.i] in " \n\t\r":
            self.i += 1

    def peek(self, t):
        self.ws()
        return self.s.startswith(t, self.i)

    def eat(self, t):
        self.ws()
        if not self.s.startswith(t, self.i):
            raise ValueError("expected %r at %d: %r" % (t, self.i, self.s[self.i:self.i + 40]))
        self.i += len(t)

    def value(self):
        self.ws()
        s = self.s
        c = s[self.i]
        if c == '"':
            j = self.i + 1
            buf = []
            while s[j] != '"':
                if s[j] == "\\":
                    j += 1
                buf.append(s[j])
                j += 1
            self.i = j + 1
            return "".join(buf)
        if s.startswith("<<", self.i):
            self.i += 2
            out = []
            if self.peek(">>"):
                self.eat(">>")
                return out
            while True:
                out.append(self.value())
                if self.peek(","):
                    self.eat(",")
                else:
                    break
            self.eat(">>")
            return out
        if c == "{":
            self.i += 1
            out = []
            if self.peek("}"):
                self.eat("}")
                return frozenset()
            while True:
                out.append(_freeze(self.value()))
                if self.peek(","):
                    self.eat(",")
                else:
                    break
            self.eat("}")
            return frozenset(out)
        if c == "[":
            self.i += 1
            d = {}
            while True:
                self.ws()
                m = re.compile(r"\w+").match(s, self.i)
                k = m.group(0)
                self.i = m.end()
                self.eat("|->")
                d[k] = self.value()
                if self.peek(","):
                    self.eat(",")
                else:
                    break
            self.eat("]")
            return d
        if c == "(":
            self.i += 1
            d = {}
            while True:
                k = self.value()
                self.eat(":>")
                d[_freeze(k)] = self.value()
                if self.peek("@@"):
                    self.eat("@@")
                else:
                    break
            self.eat(")")
            return d
        m = re.compile(r"-?\d+").match(s, self.i)
        if m:
            self.i = m.end()
            if self.peek(".."):
                self.eat("..")
                m2 = re.compile(r"-?\d+").match(s, self.i)
                self.i = m2.end()
                return frozenset(range(int(m.group(0)), int(m2.group(0)) + 1))
            return int(m.group(0))
        m = re.compile(r"\w+").match(s, self.i)
        if m:
            self.i = m.end()
            w = m.group(0)
            return True if w == "TRUE" else False if w == "FALSE" else w
        raise ValueError("cannot parse TLA+ value at %d: %r" % (self.i, s[self.i:self.i + 40]))


def _freeze(v):
    if isinstance(v, list):
        return tuple(_freeze(x) for x in v)
    if isinstance(v, dict):
        return tuple(sorted((k, _freeze(x)) for k, x in v.items()))
    return v


def parse_value(text):
    p = _P(text)
    v = p.value()
    p.ws()
    if p.i != len(text):
        raise ValueError("trailing text in TLA+ value: %r" % text[p.i:p.i + 40])
    return v


def parse_state(text):
    """'/\\ x = 1\n/\\ y = <<>>' -> dict"""
    d = {}
    parts = re.split(r"(?:^|\n)\s*/\\ ", "\n" + text.strip())
    for part in parts:
        part = part.strip()
        if not part:
            continue
        k, v = part.split(" = ", 1)
        d[k.strip()] = parse_value(v.strip())
    return d


# ---------------------------------------------------------------------------------- state graph
def dump_graph(module, cfg=None, wd=None, **kw):
    """exhaustive run with -dump dot,actionlabels; returns (result, nodes{id:state dict}, edges[(src,label,dst)],
    init ids)"""
    cfg = cfg or module
    wd = wd or workdir("graph_" + cfg)
    dot = os.path.join(wd, cfg + ".dot")
    r = mc(module, cfg, wd=wd, args=["-dump", "dot,actionlabels", dot] + list(kw.pop("args", [])), **kw)
    nodes, edges, inits = parse_dot(dot)
    return r, nodes, edges, inits


_NODE = re.compile(r'^(-?\d+) \[label="((?:[^"\\]|\\.)*)"(,style = filled)?')
_EDGE = re.compile(r'^(-?\d+) -> (-?\d+) \[label="((?:[^"\\]|\\.)*)",color=')


def parse_dot(path):
    nodes, edges, inits = {}, [], []
    with open(path) as f:
        for line in f:
            line = line.rstrip("\n")
            m = _EDGE.match(line)
            if m:
                edges.append((int(m.group(1)), _unesc(m.group(3)), int(m.group(2))))
                continue
            m = _NODE.match(line)
            if m:
                nid = int(m.group(1))
                nodes[nid] = parse_state(_unesc(m.group(2)))
                if m.group(3):
                    inits.append(nid)
    return nodes, edges, inits


def _unesc(s):
    return s.replace("\\n", "\n").replace('\\"', '"').replace("\\\\", "\\")


def parse_label(label):
    """'Enq("a", 3)' -> ('Enq', ['a', 3]); 'Deq' -> ('Deq', [])"""
    m = re.match(r"^(\w+)(?:\((.*)\))?$", label.strip(), re.S)
    if not m:
        raise ValueError("bad action label %r" % label)
    if m.group(2) is None:
        return m.group(1), []
    return m.group(1), parse_value("<<" + m.group(2) + ">>")


def tour(nodes, edges, inits, max_paths=None):
    """transition tour: a set of paths from an initial state covering every edge at least once
    (BFS tree to every state + one extension per edge, prefixes shared greedily)."""
    from collections import deque
    out = {}
    for (a, l, b) in edges:
        out.setdefault(a, []).append((l, b))
    parent = {}
    dq = deque()
    for i in inits:
        parent[i] = None
        dq.append(i)
    while dq:
        n = dq.popleft()
        for (l, b) in out.get(n, []):
            if b not in parent:
                parent[b] = (n, l)
                dq.append(b)

    def path_to(n):
        p = []
        while parent[n] is not None:
            a, l = parent[n]
            p.append((a, l, n))
            n = a
        p.reverse()
        return p

    covered = set()
    paths = []
    # greedy: walk from each uncovered edge forward along uncovered edges as long as possible
    order = sorted(((a, l, b) for (a, l, b) in edges if a in parent), key=lambda e: (len(path_to(e[0])), e[0], e[1]))
    for e in order:
        if e in covered:
            continue
        p = path_to(e[0]) + [e]
        covered.update(p)
        cur = e[2]
        while True:
            nxt = next(((cur, l, b) for (l, b) in out.get(cur, []) if (cur, l, b) not in covered), None)
            if nxt is None or len(p) > 60:
                break
            p.append(nxt)
            covered.add(nxt)
            cur = nxt[2]
        paths.append(p)
        if max_paths and len(paths) >= max_paths:
            break
    return paths


# ---------------------------------------------------------------------------------- trace validation
_VERDICT = re.compile(r'^"VERDICT <<(.*)>>"\s*$', re.M)


def _unescape_once(s):
    out, i = [], 0
    while i < len(s):
        if s[i] == "\\" and i + 1 < len(s):
            out.append(s[i + 1])
            i += 2
        else:
            out.append(s[i])
            i += 1
    return "".join(out)


def validate(module, cfg, traces, wd=None, timeout=900, extra_env=None, shard=4000, workers=1, quiet=False, multi=False):
    """validate a list of traces (each a list of event dicts, or any JSON value the trace spec understands)
    with the total monitor spec/<module>.tla.  Returns (verdicts list aligned with traces, stats).
    A verdict is dict(tid, at, clause, detail)."""
    wd = wd or workdir("trace_" + cfg)
    verdicts = [None] * len(traces)
    allbad = [[] for _ in traces]
    stats = dict(generated=0, distinct=0, runs=0, wall=0.0)
    shard = max(300, min(shard, -(-len(traces) // 16)))   # spread over the 16 cores
    jobs = []
    for k in range(0, len(traces), shard):
        part = traces[k:k + shard]
        path = os.path.join(wd, "%s_%d.json" % (cfg, k))
        with open(path, "w") as f:
            json.dump(part, f, separators=(",", ":"))
        jobs.append((k, part, path))
    # run shards in parallel, one single-worker JVM each
    from concurrent.futures import ThreadPoolExecutor

    def one(job):
        k, part, path = job
        env = {"TRACE_FILE": path}
        if extra_env:
            env.update(extra_env)
        r = run(module, cfg, wd=os.path.join(wd, "s%d" % k), workers=workers, timeout=timeout, env=env,
                serial=True, xmx="2g")
        return job, r

    with ThreadPoolExecutor(max_workers=min(16, max(1, len(jobs)))) as ex:
        results = list(ex.map(one, jobs))
    for (k, part, path), r in results:
        out = r["stdout"]
        if "violated" in r or ("Error:" in out and "VERDICT" not in out):
            raise TlcError("trace validation run failed (%s/%s): %s\n%s" % (module, cfg, r.get("violated"), out[-3000:]))
        stats["generated"] += r.get("generated", 0)
        stats["distinct"] += r.get("distinct", 0)
        stats["runs"] += 1
        stats["wall"] += r["wall"]
        for m in _VERDICT.finditer(out):
            v = parse_value("<<" + _unescape_once(m.group(1)) + ">>")
            tid = int(v[0]) - 1 + k
            rec = dict(tid=tid, at=v[1], clause=v[2], detail=v[3] if len(v) > 3 else None, extra=v[4:])
            if rec["clause"] != "ok":
                allbad[tid].append(rec)
            if verdicts[tid] is not None and verdicts[tid]["clause"] != rec["clause"]:
                # keep the earliest failure
                if verdicts[tid]["clause"] == "ok" or (rec["clause"] != "ok" and rec["at"] < verdicts[tid]["at"]):
                    verdicts[tid] = rec
            elif verdicts[tid] is None:
                verdicts[tid] = rec
        if quiet:
            # quiet monitors print failures only: require a completed run that visited every trace
            if "Model checking completed. No error has been found" not in out or r.get("distinct", 0) < len(part):
                raise TlcError("quiet trace validation incomplete (%s/%s):\n%s" % (module, cfg, out[-2000:]))
            for i in range(len(part)):
                if verdicts[k + i] is None:
                    verdicts[k + i] = dict(tid=k + i, at=0, clause="ok", detail=None)
        os.remove(path)
    missing = [i for i, v in enumerate(verdicts) if v is None]
    if missing:
        raise TlcError("trace validation produced no verdict for traces %s (%s/%s)\n%s" % (
            missing[:5], module, cfg, results[0][1]["stdout"][-2000:]))
    if multi:
        return [sorted(b, key=lambda r: r["at"]) for b in allbad], stats
    return verdicts, stats


def simulate(module, cfg, num, depth, seed, wd=None, timeout=600):
    """tlc -simulate: returns list of behaviours, each a list of (action-name, state dict)"""
    wd = wd or workdir("sim_" + cfg)
    d = os.path.join(wd, "beh")
    os.makedirs(d, exist_ok=True)
    r = run(module, cfg, wd=wd, workers=1, timeout=timeout,
            args=["-simulate", "file=%s/tr,num=%d" % (d, num), "-depth", str(depth), "-seed", str(seed)])
    behs = []
    for fn in sorted(os.listdir(d)):
        with open(os.path.join(d, fn)) as f:
            txt = f.read()
        steps = []
        for m in re.finditer(r"\\\* <?(\w+)[^\n]*\nSTATE_\d+ ==\s*\n(.*?)(?=\n\n|\Z)", txt, re.S):
            steps.append((m.group(1), parse_state(m.group(2))))
        if steps:
            behs.append(steps)
    shutil.rmtree(d, ignore_errors=True)
    return r, behs
