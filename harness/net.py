"""Multi-node simulation of RF24Network / RF24Mesh nodes on the simulated air: one thread per node under the
deterministic scheduler, event-driven idle loops, scripted jobs started at quiescence, and the global event log
(API returns with the true radio state, dequeued frames, packets on air with ground truth) for the TLC monitors."""
import struct

from . import sim, rfapi

PREFIX, SUFFIX = 0xCC, [0xC3, 0x3C, 0x33, 0xCE, 0x3E, 0xE3]


class NetSim:
    def __init__(self, nodes, seed=0, jitter=3000, gap_ms=300, fate_fn=None, spi_ns=20_000, lazy_drain=False, faults=None,
                 prefix=None, suffix=None):
        """nodes: list of dicts {addr, kind: 'net'|'routing'|'mesh'|'master', node_id?, opts...}"""
        self.s = sim.Sched(seed=seed, jitter=jitter)
        self.air = sim.Air(self.s)
        self.air.fate_fn = fate_fn or (self._fault_fate if faults else None)
        self.faults = faults or []
        self.lazy_drain = lazy_drain
        # a private address space, applied the documented way: set address_prefix / address_suffix after construction and
        # re-assign node_address (even to the same value) so that the RX pipes are re-opened on the new addresses
        self.prefix, self.suffix = (prefix if prefix is not None else PREFIX), (list(suffix) if suffix is not None else SUFFIX)
        sim.install(self.s)
        from circuitpython_nrf24l01.rf24_network import RF24Network, RF24NetworkRoutingOnly
        from circuitpython_nrf24l01.rf24_mesh import RF24Mesh, RF24MeshNoMaster
        from circuitpython_nrf24l01.network import structs
        self.structs = structs
        self.gap = gap_ms * 1_000_000
        self.spec = nodes
        self.objs, self.chips, self.names = {}, {}, {}
        self.ev = []
        self.projs, self._pidx = [], {}
        self.jobs = []
        self.scripts = {}
        self.turn = 0
        self.stop = False
        self.results = []
        self.last_activity = 0
        self.t_limit = None
        self._pkt0, self._pkt_cap = 0, 6000
        for i, nd in enumerate(nodes):
            name = "n%d" % i
            c = sim.Chip(self.air, name)
            c.spi_base_ns = spi_ns
            spi, ce = sim.FakeSpiDev(c), sim.Pin(c)
            kind = nd["kind"]
            if kind == "net":
                o = RF24Network(spi, 0, ce, nd["addr"])
            elif kind == "routing":
                o = RF24NetworkRoutingOnly(spi, 0, ce, nd["addr"])
            elif kind == "master":
                o = RF24Mesh(spi, 0, ce, 0)
            elif kind == "mesh":
                o = RF24Mesh(spi, 0, ce, nd["node_id"])
            elif kind == "meshnm":
                o = RF24MeshNoMaster(spi, 0, ce, nd["node_id"])
            else:
                raise KeyError(kind)
            for k, v in nd.get("opts", {}).items():
                setattr(o, k, v)
            if prefix is not None or suffix is not None:
                o.address_prefix = bytearray([self.prefix])
                o.address_suffix = bytearray(self.suffix)
                if kind in ("net", "routing"):
                    o.node_address = nd["addr"]
                else:
                    o._begin(o.node_address)
            if nd.get("reassign"):
                o.node_address = nd["addr"]       # re-derive pipe addresses after option changes
            self.objs[name], self.chips[name] = o, c
            nd["name"] = name
            self.names[name] = nd
        self.air.keep_log = True

    # ---- recording
    def proj(self, chip):
        st = rfapi.state(chip)
        key = repr(sorted(st.items()))
        i = self._pidx.get(key)
        if i is None:
            self.projs.append(st)
            i = self._pidx[key] = len(self.projs)
        return i

    def rec_ret(self, name, api, exc="none", **kw):
        o = self.objs[name]
        e = dict(k="ret", n=name, api=api, exc=exc, proj=self.proj(self.chips[name]), t=self.s.now // 1000,
                 addr=o.node_address, lvl=o.multicast_level, amc=bool(o.allow_multicast))
        e.update(kw)
        self.ev.append(e)

    def _fault_fate(self, pkt):
        """fault rules: {src: node name, kind: 'user'|'ack'|'frag<k>'|'any', fate: 'P'|'A', to?: logical destination}"""
        d = pkt["data"]
        typ = d[6] if len(d) >= 8 else -1
        for r in self.faults:
            if r.get("src") not in (None, pkt["src"]):
                continue
            k = r.get("kind", "any")
            if k == "ack" and typ != 193:
                continue
            if k == "user" and typ == 193:
                continue
            if k.startswith("type") and typ != int(k[4:]):
                continue
            if k.startswith("frag") and not (typ in (148, 149, 150) and len(d) >= 8 and (d[7] == int(k[4:]) or (typ == 150 and int(k[4:]) == 1))):
                continue
            if "count" in r:                 # the rule applies to the first `count` matching packets only
                if r["count"] <= 0:
                    continue
                r["count"] -= 1
            return r.get("fate", "P")
        return "D"

    def snapshot(self):
        master = next((o for o in self.objs.values() if hasattr(o, "dhcp_dict") and o.node_id == 0), None)
        table = sorted([int(k), int(v)] for k, v in master.dhcp_dict.items()) if master is not None else []
        addrs = [[nm, getattr(o, "node_id", -1), o.node_address] for nm, o in self.objs.items()]
        return table, addrs

    def mesh_call(self, name, op, fn, arg=0, timeout_ms=0):
        """run one mesh API call on node `name`, record it with snapshots of the master's table and all node addresses"""
        o = self.objs[name]
        t0 = self.s.now
        tb, _ = self.snapshot()
        wasconn = o.node_address != 0o4444
        nlog0 = len(self.air.log)
        _, a0 = self.snapshot()
        addr0 = o.node_address
        exc, r = "none", None
        try:
            r = fn(o)
        except sim.WatchdogExpired:
            raise
        except Exception as e:  # noqa
            exc = type(e).__name__
        table, addrs = self.snapshot()
        res = -999 if r is None else (int(r) if not isinstance(r, bool) else (1 if r else 0))
        self.ev.append(dict(k="mesh", op=op, n=name, id=getattr(o, "node_id", -1), arg=arg, res=res, isbool=isinstance(r, bool),
                            exc=exc, t0=t0 // 1000, t=self.s.now // 1000, timeout_ms=timeout_ms, table_before=tb, table=table, wasconn=wasconn, addrs_before=a0, addr_before=addr0,
                            dups=sum(1 for p in self.air.log[nlog0:] for x in p["rx"] if x[0] == name and x[2] == "dup"),
                            addrs=addrs, proj=self.proj(self.chips[name]), addr=o.node_address, lvl=o.multicast_level))
        self.drain(name)
        return r

    def drain(self, name, force=False):
        if self.lazy_drain and not force:
            return
        o = self.objs[name]
        while o.available():
            fr = o.read()
            self.ev.append(dict(k="deq", n=name, t=self.s.now // 1000, **{"from": fr.header.from_node}, to=fr.header.to_node,
                                type=fr.header.message_type, id=fr.header.frame_id, msg=list(fr.message)))

    def update(self, name, record=True):
        o = self.objs[name]
        exc, r = "none", 0
        try:
            r = o.update()
        except sim.WatchdogExpired:
            raise
        except Exception as e:  # noqa
            exc = type(e).__name__
            self.chips[name].rx.clear()
        if record or exc != "none":
            self.rec_ret(name, "update", exc, res=int(r) if isinstance(r, int) else 0)
        self.drain(name)
        return r

    # ---- node main loop
    def _loop(self, name):
        def f():
            o, chip, s = self.objs[name], self.chips[name], self.s
            me = s.cur
            while not self.stop:
                if (self.t_limit is not None and s.now > self.t_limit) or len(self.air.log) - self._pkt0 > self._pkt_cap:
                    # the network never becomes quiet (e.g. a frame bounces between two nodes for ever): an observation, not a
                    # simulation that runs until the memory is full
                    self.ev.append(dict(k="hang", n=name, job=-3, t=s.now // 1000, exc="livelock"))
                    self.stop = True
                    s.abort = True
                    return
                if chip.rx:
                    # (virtual-time watchdog also around the node's own polling: an update() that never returns must end the
                    # simulation with a "hang" observation, not hang the check)
                    me.deadline = s.now + 20_000_000_000
                    try:
                        self.update(name)
                    except sim.WatchdogExpired:
                        self.ev.append(dict(k="hang", n=name, job=-2, t=s.now // 1000))
                        self.stop = True
                        s.abort = True
                        return
                    me.deadline = None
                sc = self.scripts.get(name)
                if sc and s.now >= sc[0][0]:
                    _, fn = sc.pop(0)
                    me.deadline = s.now + 30_000_000_000
                    try:
                        fn(self, name)
                    except sim.WatchdogExpired:
                        self.ev.append(dict(k="hang", n=name, job=-1, t=s.now // 1000))
                        self.stop = True
                        s.abort = True
                        return
                    me.deadline = None
                    self.last_activity = s.now
                    continue
                if any(self.scripts.values()):
                    if not chip.rx:
                        nxt = sc[0][0] if sc else s.now + 20_000_000
                        s.park(lambda: bool(chip.rx) or self.stop, max(s.now + 1000, min(nxt, s.now + 20_000_000)))
                    continue
                if self.turn < len(self.jobs) and callable(self.jobs[self.turn]["n"]) and self._quiescent(name):
                    self.jobs[self.turn]["n"] = self.jobs[self.turn]["n"](self)      # node chosen from the state reached
                if self.turn < len(self.jobs) and self.jobs[self.turn]["n"] == name and self._quiescent(name):
                    job = self.jobs[self.turn]
                    if self.lazy_drain and not job.get("hold"):   # everything the previous job delivered is read now, at quiescence
                        for nm in self.objs:   # ("hold": the applications have not read yet when this job starts)
                            self.drain(nm, force=True)
                    me.deadline = s.now + job.get("budget_ms", 4000) * 1_000_000
                    self._pkt0 = len(self.air.log)          # (a single job never needs thousands of packets)
                    try:
                        job["fn"](self, name, job)
                    except sim.WatchdogExpired:
                        self.ev.append(dict(k="hang", n=name, job=self.turn, t=s.now // 1000))
                        self.stop = True
                        s.abort = True
                        return
                    me.deadline = None
                    self.drain(name)
                    self.last_activity = s.now
                    self.turn += 1
                    if self.turn >= len(self.jobs):
                        self._finish_at = s.now + self.gap
                if self.turn >= len(self.jobs) and s.now >= getattr(self, "_finish_at", 0) and self._quiescent(name, final=True):
                    for nm in self.objs:
                        self.drain(nm, force=True)
                    self.stop = True
                    break
                if chip.rx:
                    continue
                # idle: block until the radio has something, or it may be this node's turn
                mine = self.turn < len(self.jobs) and (self.jobs[self.turn]["n"] == name or callable(self.jobs[self.turn]["n"]))
                until = s.now + (2_000_000 if mine or self.turn >= len(self.jobs) else 50_000_000)
                s.park(lambda: bool(chip.rx) or self.stop, until)
        return f

    def _quiescent(self, me_name, final=False):
        """every other node idle (parked), every radio back in RX and silent for `gap`"""
        s = self.s
        for n in s.nodes:
            if n.name != me_name and not n.parked and not n.done:
                return False
        for name, c in self.chips.items():
            if c.busy or c.rx:
                return False
        last = max([self.last_activity] + [p["t"] * 1000 for p in self.air.log[-1:]])
        return s.now - last >= self.gap

    def run(self, jobs, real_timeout=None, scripts=None):
        self.jobs = jobs
        t0 = self.s.boot_t          # script times are relative to the start of the run
        last_script = max([at for v in (scripts or {}).values() for (at, _) in v] + [0])
        self._pkt0 = len(self.air.log)
        self._pkt_cap = 6000 * (1 + sum(len(v) for v in (scripts or {}).values()))
        self.t_limit = t0 + last_script + (60 + 5 * len(jobs)) * 1_000_000_000 + sum(j.get("budget_ms", 4000) for j in jobs) * 2_000_000
        self.scripts = {k: sorted([(t0 + at, fn) for (at, fn) in v], key=lambda x: x[0]) for k, v in (scripts or {}).items()}
        for name in self.objs:
            self.s.spawn(self._loop(name), name)
        errs = self.s.run()
        for name, exc in errs:
            self.ev.append(dict(k="crash", n=name, exc=str(exc)[-400:], t=self.s.now // 1000))
        return self.trace()

    def trace(self):
        pk = []
        for p in self.air.log:
            pk.append(dict(k="pkt", t=p["t"], src=p["src"], addr=p["addr"], data=p["data"], fate=p["fate"],
                           rx=[[x[0], x[1], x[2]] for x in p["rx"]], want_ack=bool(p["want_ack"]), noack=bool(p["noack"]),
                           acked=bool(p["ack_ok"]), has_ack=p["ack"] is not None, aa0=p["aa0"], load=p["load"]))
        ev = sorted(self.ev + pk, key=lambda e: e["t"])
        nodes = [dict(name=nd["name"], addr=nd["addr"], kind=nd["kind"], node_id=nd.get("node_id", 0),
                      lvl=self.objs[nd["name"]].multicast_level,
                      allow_mc=bool(nd.get("opts", {}).get("allow_multicast", True)),
                      relay=bool(nd.get("opts", {}).get("multicast_relay", False))) for nd in self.spec]
        wins = []
        cur = None
        for e in ev:
            if e["k"] == "call":
                cur = dict(call=e, ret=dict(exc="missing", res=False, t=0, dt=0, proj=1, addr=0, lvl=0, n=e["n"], api=e["api"]),
                           rets=[], deqs=[], pkts=[], bad=[])
                wins.append(cur)
            elif cur is None or e["k"] == "mesh":
                continue            # (mesh events are judged from their own list)
            elif e["k"] == "ret":
                cur["rets"].append(e)
                if e.get("job") == cur["call"]["job"] and e["api"] == cur["call"]["api"]:
                    cur["ret"] = e
            elif e["k"] == "deq":
                cur["deqs"].append(e)
            elif e["k"] == "pkt":
                cur["pkts"].append(e)
            else:
                cur["bad"].append(dict(k=e["k"], n=e.get("n", ""), what=str(e.get("exc", e.get("job", "")))))
        for i in range(1, len(wins)):
            # a "hold" job started before the applications read what the previous job delivered: those frames are dequeued
            # in this window but belong to the previous call
            if wins[i]["call"].get("hold") and wins[i]["call"]["msg"] != wins[i - 1]["call"]["msg"]:
                mine = [d for d in wins[i]["deqs"] if d["msg"] != wins[i - 1]["call"]["msg"] or d["msg"] == wins[i]["call"]["msg"]]
                wins[i - 1]["deqs"] += [d for d in wins[i]["deqs"] if d not in mine]
                wins[i]["deqs"] = mine
        return dict(nodes=nodes, prefix=self.prefix, suffix=self.suffix, projs=self.projs, wins=wins,
                    mesh=[e for e in ev if e["k"] == "mesh"], crashes=[e for e in ev if e["k"] in ("crash", "hang")])


# ---- job helpers -------------------------------------------------------------------------------------------------
def job_write(src_name, dst, mtype, msg, **kw):
    def fn(ns, name, job):
        o = ns.objs[name]
        st = ns.structs
        t0 = ns.s.now
        hdr = st.RF24NetworkHeader(dst, mtype)
        jid = job.get("jid", ns.turn)
        ns.ev.append(dict(k="call", n=name, api="write", to=dst, type=mtype if isinstance(mtype, int) else ord(mtype[0]),
                          id=hdr.frame_id, msg=list(msg), t=t0 // 1000, job=jid, src=o.node_address,
                          chk=list(job.get("chk", ["C07"])), level=-1, lvl=o.multicast_level,
                          tx_timeout=o.tx_timeout, route_timeout=o.route_timeout))
        exc, r = "none", False
        try:
            if hasattr(o, "dhcp_dict") or not hasattr(o, "_pre_write"):
                r = o.write(dst, mtype, msg)           # mesh API
            else:
                r = o.send(hdr, msg)
        except sim.WatchdogExpired:
            raise
        except Exception as e:  # noqa
            exc = type(e).__name__
        ns.rec_ret(name, "write", exc, res=bool(r), job=jid, dt=(ns.s.now - t0) // 1000)
    d = dict(n=src_name, fn=fn)
    d.update(kw)
    return d


def job_multicast(src_name, msg, mtype, level, **kw):
    def fn(ns, name, job):
        o = ns.objs[name]
        t0 = ns.s.now
        ns.ev.append(dict(k="call", n=name, api="multicast", level=-1 if level is None else level, type=mtype, msg=list(msg),
                          t=t0 // 1000, job=ns.turn, src=o.node_address, to=64, id=0, chk=list(job.get("chk", ["C07"])),
                          hold=bool(job.get("hold")), lvl=o.multicast_level, tx_timeout=o.tx_timeout, route_timeout=o.route_timeout))
        exc, r = "none", False
        try:
            r = o.multicast(msg, mtype, level)
        except sim.WatchdogExpired:
            raise
        except Exception as e:  # noqa
            exc = type(e).__name__
        ns.rec_ret(name, "multicast", exc, res=bool(r), job=ns.turn, dt=(ns.s.now - t0) // 1000)
    d = dict(n=src_name, fn=fn)
    d.update(kw)
    return d


def job_call(src_name, api, fn_body, **kw):
    """generic job: fn_body(ns, name) -> result (recorded as a return of `api`)"""
    def fn(ns, name, job):
        t0 = ns.s.now
        ns.ev.append(dict(k="call", n=name, api=api, t=t0 // 1000, job=ns.turn, src=ns.objs[name].node_address, to=0, type=0,
                          id=0, msg=[], level=-1, chk=list(job.get("chk", ["C07"])), lvl=ns.objs[name].multicast_level,
                          tx_timeout=ns.objs[name].tx_timeout, route_timeout=ns.objs[name].route_timeout))
        exc, r = "none", None
        try:
            r = fn_body(ns, name)
        except sim.WatchdogExpired:
            raise
        except Exception as e:  # noqa
            exc = type(e).__name__
        rr = r if isinstance(r, (int, bool)) else (-999 if r is None else 1)
        ns.rec_ret(name, api, exc, res=int(rr) if not isinstance(rr, bool) else rr, job=ns.turn, dt=(ns.s.now - t0) // 1000)
    d = dict(n=src_name, fn=fn)
    d.update(kw)
    return d


def job_mesh_send(src_name, to_id, mtype, msg, **kw):
    def fn(ns, name, job):
        o = ns.objs[name]
        t0 = ns.s.now
        table, addrs = ns.snapshot()
        ns.ev.append(dict(k="call", n=name, api="mesh_send", to=to_id, type=mtype, id=0, msg=list(msg), t=t0 // 1000, job=ns.turn,
                          src=o.node_address, chk=list(job.get("chk", ["C17", "C07"])), level=-1, lvl=o.multicast_level,
                          tx_timeout=o.tx_timeout, route_timeout=o.route_timeout, table=table, addrs=addrs))
        exc, r = "none", False
        try:
            r = o.send(to_id, mtype, msg)
        except sim.WatchdogExpired:
            raise
        except Exception as e:  # noqa
            exc = type(e).__name__
        ns.rec_ret(name, "mesh_send", exc, res=bool(r), job=ns.turn, dt=(ns.s.now - t0) // 1000)
    d = dict(n=src_name, fn=fn)
    d.update(kw)
    return d


def job_mesh(src_name, op, fn_body, arg=0, timeout_ms=0, **kw):
    """sequential mesh API call (lookup / release / check_connection / renew) recorded as a mesh event"""
    def fn(ns, name, job):
        ns.mesh_call(name, op, fn_body, arg=arg, timeout_ms=timeout_ms)
    d = dict(n=src_name, fn=fn)
    d.update(kw)
    return d
