"""Driving the RF24 (and rf24_lite) configuration / pipe API on the radio double and recording contract events
for TraceRf24Api.tla.  No judgement happens here: every event is (call, outcome, true radio state before/after)."""
import copy

A5, B5, S3, C5, L6 = b"AAAAA", b"BBBBB", b"xyz", b"ABBBB", b"LLLLLL"

# op -> argument choices (whole documented domain and beyond it)
OPS = {
    "channel=": [0, 1, 76, 125, 126, -1, 255], "channel": [None],
    "data_rate=": [1, 2, 250, 0, 3], "data_rate": [None],
    "pa_level=": [0, -6, -12, -18, (0, False), (-12, True), (-18, 0), 20, -5], "pa_level": [None], "is_lna_enabled": [None],
    "crc=": [0, 1, 2, 3], "crc": [None],
    "address_length=": [3, 4, 5, 2, 6, 0], "address_length": [None],
    "arc=": [0, 1, 15, 16, -1], "arc": [None], "ard=": [250, 500, 600, 4000, 4250, 0, 1500], "ard": [None],
    "set_auto_retries": [(250, 0), (4000, 15), (1600, 7), (0, 20)], "get_auto_retries": [None],
    "auto_ack=": [True, False, 0x3E, 0x15, 0xFF, [1, -1, 0, 1], [0, 0, 0, 0, 0, 0, 1]], "auto_ack": [None],
    "set_auto_ack": [(True, 0), (False, 0), (True, 5), (False, 3), (True, None), (False, None), (True, 6), (True, -1)],
    "get_auto_ack": [0, 5, 6, -1],
    "dynamic_payloads=": [True, False, 0x01, 0x3E, 0x40, [0, -1, 1], [1, 1, 1, 1, 1, 1, 1]], "dynamic_payloads": [None],
    "set_dynamic_payloads": [(True, 0), (False, 0), (False, 2), (True, None), (False, None), (True, 6), (False, -1)],
    "get_dynamic_payloads": [0, 3, 6, -1],
    "payload_length=": [1, 32, 33, 0, -1, 8, [1, -1, 20, 0], [40, 5]], "payload_length": [None],
    "set_payload_length": [(8, 0), (32, 5), (1, 1), (8, None), (8, 6), (40, 2), (0, 3), (5, -1)],
    "get_payload_length": [0, 3, 5, 6, -1],
    "load_ack": [(1, 1), (32, 0), (5, 5), (0, 1), (33, 1), (3, 6), (3, -1)],
    "ack=": [True, False], "ack": [None], "allow_ask_no_ack=": [True, False], "allow_ask_no_ack": [None],
    "interrupt_config": [(True, True, True), (False, False, False), (True, False, True), (False, True, False)],
    "power=": [True, False], "power": [None],
    "open_rx_pipe": [(0, A5), (0, B5), (0, S3), (1, A5), (1, C5), (2, b"Q"), (5, b"ZAAAA"), (6, A5), (-1, A5), (1, b""), (0, L6)],
    "close_rx_pipe": [0, 1, 5, 6, -1],
    "open_tx_pipe": [A5, B5, S3, L6],
    "address": [-1, 0, 1, 3, 6],
    "listen=": [True, False], "listen": [None],
    "start_carrier_wave": [None], "stop_carrier_wave": [None],
    "print_details": [False, True], "update": [None], "flush_rx": [None], "flush_tx": [None],
    "clear_status_flags": [(True, True, True), (False, True, False)],
}
LITE_OPS = ["channel=", "channel", "data_rate=", "data_rate", "pa_level=", "pa_level", "address_length=", "address_length",
            "arc=", "arc", "ard=", "ard", "dynamic_payloads=", "dynamic_payloads", "payload_length=", "payload_length",
            "ack=", "ack", "interrupt_config", "power=", "power", "open_rx_pipe", "close_rx_pipe", "open_tx_pipe",
            "listen=", "listen"]
LITE_ARGS = {"dynamic_payloads=": [True, False], "payload_length=": [1, 32, 33, 0, -1, 8],
             "pa_level=": [0, -6, -12, -18, 20, -5], "data_rate=": [1, 2, 250],
             "open_rx_pipe": [(0, A5), (0, B5), (0, S3), (1, A5), (1, C5), (2, b"Q"), (5, b"ZAAAA"), (6, A5), (-1, A5), (1, b"")],
             "open_tx_pipe": [A5, B5], "address_length=": [3, 4, 5, 2, 6, 0]}

_TWO = {"set_auto_ack", "set_dynamic_payloads", "set_payload_length"}


def encode(op, a):
    """(op, python argument) -> tagged JSON call record understood by Rf24Api.tla"""
    c = {"op": op, "t": "none", "v": 0, "p": 0, "pt": "none"}
    if op in _TWO:
        v, p = a
        c["v"] = bool(v) if op != "set_payload_length" else v
        c["pt"], c["p"] = ("none", 0) if p is None else ("int", p)
    elif op == "set_auto_retries":
        c["v"], c["n"] = a
    elif op == "interrupt_config":
        c["dr"], c["ds"], c["df"] = map(bool, a)
    elif op == "clear_status_flags":
        pass
    elif op == "pa_level=":
        if isinstance(a, tuple):
            c["t"], c["v"], c["lna"] = "pair", a[0], bool(a[1])
        else:
            c["t"], c["v"], c["lna"] = "int", a, True
    elif op == "open_rx_pipe":
        c["p"], c["v"] = a[0], list(a[1])
    elif op == "open_tx_pipe":
        c["v"] = list(a)
    elif op == "load_ack":
        c["n"], c["p"] = a
    elif a is None:
        pass
    elif isinstance(a, bool):
        c["t"], c["v"] = "bool", a
    elif isinstance(a, int):
        c["t"], c["v"] = "int", a
    elif isinstance(a, (list, tuple)):
        c["t"], c["v"] = "list", [int(x) for x in a]
    return c


def state(chip):
    r = chip.r
    return dict(c=r[0], aa=r[1], en=r[2], aw=r[3], retr=r[4], ch=r[5], rf=r[6], dyn=chip.dynpd(), feat=chip.feature(),
                pw=[r[0x11 + i] for i in range(6)], p0=list(chip.addr[0x0A]), p1=list(chip.addr[0x0B]),
                p25=[r[0x0C + i] for i in range(4)], txa=list(chip.addr[0x10]), ce=int(chip.ce))


def invoke(nrf, op, a):
    a = copy.deepcopy(a)
    if op.endswith("="):
        setattr(nrf, op[:-1], a)
        return None
    if op in ("open_rx_pipe", "open_tx_pipe"):
        # the address is the caller's own mutable buffer, re-used for something else right after the call (the
        # multiceiver idiom `buf[0] = ...; open_rx_pipe(i, buf)`): the driver must have taken what it needs
        buf = bytearray(a[1] if op == "open_rx_pipe" else a)
        try:
            return nrf.open_rx_pipe(a[0], buf) if op == "open_rx_pipe" else nrf.open_tx_pipe(buf)
        finally:
            for i in range(len(buf)):
                buf[i] ^= 0xA5
            buf += b"\x11"
    if op in _TWO or op in ("set_auto_retries", "interrupt_config"):
        return getattr(nrf, op)(*a)
    if op in ("get_auto_ack", "get_dynamic_payloads", "get_payload_length", "close_rx_pipe", "address"):
        return getattr(nrf, op)(a)
    if op == "get_auto_retries":
        return nrf.get_auto_retries()
    if op == "load_ack":
        nrf.load_ack(bytes(range(a[0])), a[1])
        return None
    if op in ("start_carrier_wave", "stop_carrier_wave", "update", "flush_rx", "flush_tx"):
        getattr(nrf, op)()
        return None
    if op == "clear_status_flags":
        nrf.clear_status_flags(*a)
        return None
    if op == "print_details":
        import contextlib
        import io
        with contextlib.redirect_stdout(io.StringIO()):
            nrf.print_details(a)        # debugging aid: reads everything back into the driver's cache, must change nothing
        return None
    return getattr(nrf, op)


def tag(rv):
    if rv is None:
        return "none", 0
    if isinstance(rv, bool):
        return "bool", rv
    if isinstance(rv, int):
        return "int", rv
    if isinstance(rv, (bytes, bytearray, list, tuple)):
        return "list", [int(x) for x in rv]
    return "other", str(rv)


def do_call(nrf, chip, op, a):
    pre = state(chip)
    chip.illegal.clear()
    chip.cfg_writes.clear()
    exc, rv = "none", None
    try:
        rv = invoke(nrf, op, a)
    except Exception as e:  # noqa
        exc = type(e).__name__
    rt, rvv = tag(rv)
    return dict(k="call", call=encode(op, a), exc=exc, rt=rt, rv=rvv, pre=pre, post=state(chip),
                illegal=[str(x) for x in chip.illegal], role=[list(x) for x in chip.cfg_writes])


def reenter(nrf, chip):
    pre = state(chip)
    exc = "none"
    try:
        nrf.__enter__()
    except Exception as e:  # noqa  (a shadow holding a value that cannot even be written)
        exc = type(e).__name__
    return dict(k="reenter", pre=pre, post=state(chip), exc=exc)


def construct(chip):
    """a new RF24 object on an existing (possibly already configured, never power-cycled) chip"""
    from . import sim
    from circuitpython_nrf24l01.rf24 import RF24
    pre = state(chip)
    exc, nrf = "none", None
    try:
        nrf = RF24(sim.FakeSpiDev(chip), 0, sim.Pin(chip))
    except Exception as e:  # noqa
        exc = type(e).__name__
    return nrf, dict(k="construct", pre=pre, post=state(chip), exc=exc)


def arg_repr(a):
    return repr(a).replace(" ", "")


def judge_forest(chk, seqs, traces, what, lite=False):
    """build the history forest, let TraceRf24Api.tla judge it; returns [(seq, prefix_len, event, verdict)]"""
    from . import tree, tlc
    fo = tree.Forest()
    for seq, t in zip(seqs, traces):
        fo.add([(op, arg_repr(a)) for op, a in seq], t["ev"])
    bad, st = tree.validate_forest("TraceRf24Api", "TraceRf24Api", fo, extra=dict(lite=lite))
    chk.add_stats(st, what)
    out = []
    for nid, v in sorted(bad.items()):
        path = fo.path_of[nid]
        calls = [k for k in path if k[0] != "#tail"]
        out.append((calls, fo.nodes[nid - 1], v))
    return out
