"""state-graph helpers for spec -> code replay (direction A): index, walking label sequences, minimisation"""
from . import tlc


class Graph:
    def __init__(self, nodes, edges, inits):
        self.nodes, self.edges, self.inits = nodes, edges, inits
        self.next = {}
        for (a, l, b) in edges:
            self.next[(a, l)] = b
        self._parsed = {}

    @classmethod
    def load(cls, module, cfg=None, **kw):
        r, n, e, i = tlc.dump_graph(module, cfg, **kw)
        g = cls(n, e, i)
        g.result = r
        return g

    def label(self, l):
        if l not in self._parsed:
            self._parsed[l] = tlc.parse_label(l)
        return self._parsed[l]

    def walk(self, labels, init=None):
        """follow a sequence of action labels; returns [(src, label, dst)] or None if it leaves the graph"""
        cur = self.inits[0] if init is None else init
        out = []
        for l in labels:
            nxt = self.next.get((cur, l))
            if nxt is None:
                return None
            out.append((cur, l, nxt))
            cur = nxt
        return out

    def tour(self, max_paths=None):
        return tlc.tour(self.nodes, self.edges, self.inits, max_paths)

    def random_walks(self, rng, n, depth):
        """seeded behaviours of the explored graph: an edge tour reaches every transition by SOME history, random walks add
        long histories (implementation state the abstract state does not distinguish is exercised through them)"""
        if not hasattr(self, "_out"):
            self._out = {}
            for (a, l, b) in self.edges:
                self._out.setdefault(a, []).append((a, l, b))
        walks = []
        for _ in range(n):
            cur, w = self.inits[0], []
            for _k in range(depth):
                outs = self._out.get(cur)
                if not outs:
                    break
                e = outs[rng.randrange(len(outs))]
                w.append(e)
                cur = e[2]
            walks.append(w)
        return walks


def minimize(labels, fails):
    """greedy one-step-deletion minimisation. `fails(labels)` returns the failing clause (truthy) or None;
    the clause must stay the same."""
    want = fails(labels)
    if not want:
        return labels
    cur = list(labels)
    changed = True
    while changed:
        changed = False
        i = len(cur) - 1
        while i >= 0:
            cand = cur[:i] + cur[i + 1:]
            if cand and fails(cand) == want:
                cur = cand
                changed = True
            i -= 1
    return cur
