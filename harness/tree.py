"""history forests for trace-tree validation: histories sharing a prefix share nodes, so each distinct
(prefix, event) is judged once by the TLC monitor"""
import json
import os

from . import tlc


class Forest:
    def __init__(self):
        self.nodes = []     # events (1-based ids)
        self.kids = []
        self.roots = []
        self.index = {}     # (parent id, key) -> node id
        self.path_of = {}   # node id -> label path (tuple)

    def add(self, keys, events):
        """keys[i] identifies event i among its siblings (e.g. the call); events may be longer than keys
        (trailing probe events get synthetic keys)"""
        par = 0
        for i, e in enumerate(events):
            key = keys[i] if i < len(keys) else ("#tail", i - len(keys))
            nid = self.index.get((par, key))
            if nid is None:
                e = dict(e)
                e["par"] = par
                if par != 0 and e.get("k") == "call":
                    e.pop("pre", None)          # a call's pre-state is its parent's post-state
                self.nodes.append(e)
                self.kids.append([])
                nid = len(self.nodes)
                self.index[(par, key)] = nid
                if par == 0:
                    self.roots.append(nid)
                else:
                    self.kids[par - 1].append(nid)
                self.path_of[nid] = self.path_of.get(par, ()) + (key,)
            par = nid
        return par

    def shards(self, n=16):
        """split by root subtrees into at most n forests"""
        groups = [[] for _ in range(min(n, max(1, len(self.roots))))]
        sizes = {}

        def size(r):
            stack, c = [r], 0
            while stack:
                x = stack.pop()
                c += 1
                stack.extend(self.kids[x - 1])
            return c
        for r in sorted(self.roots, key=lambda r: -size(r)):
            g = min(groups, key=lambda g_: sum(sizes.get(x, 0) for x in g_))
            sizes[r] = size(r)
            g.append(r)
        out = []
        for g in groups:
            if not g:
                continue
            ids = []
            stack = list(g)
            while stack:
                x = stack.pop()
                ids.append(x)
                stack.extend(self.kids[x - 1])
            ids.sort()
            remap = {old: new + 1 for new, old in enumerate(ids)}
            nodes = []
            for old in ids:
                e = dict(self.nodes[old - 1])
                e["par"] = remap.get(e["par"], 0)
                nodes.append(e)
            out.append((dict(nodes=nodes, kids=[[remap[k] for k in self.kids[old - 1]] for old in ids],
                             roots=[remap[r] for r in g]), ids))
        return out


def validate_forest(module, cfg, forest, extra=None, wd=None, timeout=2400):
    """returns ({node id: verdict} for failing nodes, stats)"""
    from concurrent.futures import ThreadPoolExecutor
    wd = wd or tlc.workdir("forest_" + cfg)
    jobs = []
    for i, (doc, ids) in enumerate(forest.shards(16)):
        doc.update(extra or {})
        path = os.path.join(wd, "f%d.json" % i)
        with open(path, "w") as f:
            json.dump(doc, f, separators=(",", ":"))
        jobs.append((i, path, ids))

    def one(job):
        i, path, ids = job
        r = tlc.run(module, cfg, wd=os.path.join(wd, "s%d" % i), workers=1, timeout=timeout, env={"TRACE_FILE": path},
                    serial=True, xmx="3g")
        return job, r
    bad = {}
    stats = dict(generated=0, distinct=0, runs=0, wall=0.0)
    with ThreadPoolExecutor(max_workers=16) as ex:
        for (i, path, ids), r in ex.map(one, jobs):
            out = r["stdout"]
            if "Model checking completed. No error has been found" not in out or r.get("distinct", 0) < len(ids) + 1:
                raise tlc.TlcError("forest validation incomplete (%s/%s): distinct=%s nodes=%d\n%s" % (
                    module, cfg, r.get("distinct"), len(ids), out[-2500:]))
            stats["generated"] += r.get("generated", 0)
            stats["distinct"] += r.get("distinct", 0)
            stats["runs"] += 1
            stats["wall"] += r["wall"]
            for m in tlc._VERDICT.finditer(out):
                v = tlc.parse_value("<<" + tlc._unescape_once(m.group(1)) + ">>")
                nid = ids[int(v[0]) - 1]
                bad[nid] = dict(node=nid, clause=v[2], detail=v[3] if len(v) > 3 else None, extra=v[4:])
            os.remove(path)
    return bad, stats
