"""Verdict bookkeeping shared by all checks: violations -> known-finding matching -> VIOLATION lines,
evidence files, exit codes (0 held / 1 violation / 2 machinery failure)."""
import json
import os
import sys
import time

ROOT = os.path.dirname(os.path.dirname(os.path.abspath(__file__)))
KNOWN = os.path.join(ROOT, "known_findings.json")


def load_known():
    try:
        with open(KNOWN) as f:
            return json.load(f)["findings"]
    except FileNotFoundError:
        return []


class Check:
    def __init__(self, pid, tier, seed, level="model_checking"):
        self.pid, self.tier, self.seed, self.level = pid, tier, int(seed), level
        self.t0 = time.time()
        self.states = 0
        self.transitions = 0
        self.traces = 0
        self.evaluations = 0
        self.distinct = set()
        self.samples = []
        self.violations = []      # dict(clause, key, scenario, detail)
        self.notes = []
        self.assumptions = []
        self.extra = {}
        self.tlc_runs = []
        self.rule = ""
        self.exhaustive = False
        self.wd = os.path.join(ROOT, ".work", pid)
        os.makedirs(self.wd, exist_ok=True)

    # -- accounting
    def add_tlc(self, r, what=""):
        self.states += r.get("distinct", 0)
        self.transitions += r.get("generated", 0)
        self.tlc_runs.append(dict(what=what, module=r.get("module"), cfg=r.get("cfg"), distinct=r.get("distinct", 0),
                                  generated=r.get("generated", 0), depth=r.get("depth"), wall_s=round(r.get("wall", 0), 2)))

    def add_stats(self, st, what=""):
        self.states += st.get("distinct", 0)
        self.transitions += st.get("generated", 0)
        self.tlc_runs.append(dict(what=what, distinct=st.get("distinct", 0), generated=st.get("generated", 0),
                                  runs=st.get("runs"), wall_s=round(st.get("wall", 0), 2)))

    def case(self, key=None, n=1):
        self.evaluations += n
        if key is not None:
            self.distinct.add(key)

    def sample(self, x, cap=4):
        if len(self.samples) < cap:
            self.samples.append(x)

    def phase(self, name):
        now = time.time()
        self.extra.setdefault("phases_s", {})[name] = round(now - getattr(self, "_pt", self.t0), 2)
        self._pt = now

    def note(self, s):
        self.notes.append(s)
        print("NOTE: " + s)

    def violation(self, clause, key, scenario, detail=None):
        """clause: failed TLA+ clause name; key: canonical witness signature (known-finding matching);
        scenario: JSON-serialisable replay description"""
        self.violations.append(dict(clause=clause, key=key, scenario=scenario, detail=detail))

    # -- finish
    def finish(self):
        known = [k for k in load_known() if k["property"] == self.pid and k.get("status") == "open"]
        kmap = {k["key"]: k for k in known}
        new, seen_known = [], {}
        for v in self.violations:
            if v["key"] in kmap:
                seen_known.setdefault(v["key"], []).append(v)
            else:
                new.append(v)
        for key, vs in seen_known.items():
            print("KNOWN-FINDING: property=%s %s [%s; %d witness(es) this run]" % (
                self.pid, kmap[key]["summary"], key, len(vs)))
        rc = 0
        by_key = {}
        for v in new:
            by_key.setdefault(v["key"], v)
        for i, (key, v) in enumerate(sorted(by_key.items(), key=lambda kv: str(kv[0]))):
            path = os.path.join(self.wd, "replay_%s_%d.json" % (self.tier, i))
            with open(path, "w") as f:
                json.dump(dict(property=self.pid, tier=self.tier, seed=self.seed, clause=v["clause"], key=key,
                               detail=v["detail"], scenario=v["scenario"]), f, indent=1, default=str)
            print("VIOLATION property=%s replay=%s" % (self.pid, path))
            print("  clause=%s key=%s detail=%s" % (v["clause"], key, str(v["detail"])[:300]))
            rc = 1
        cov = dict(states=max(self.states, 0), transitions=max(self.transitions, 0),
                   traces_validated_against_impl=self.traces,
                   evaluations=self.evaluations, distinct_nontrivial=len(self.distinct),
                   rule=self.rule, samples=self.samples or ["(none)"], exhaustive=self.exhaustive,
                   tlc_runs=self.tlc_runs, notes=self.notes,
                   known_findings_seen=sorted(seen_known), new_violation_keys=sorted(map(str, by_key)))
        cov.update(self.extra)
        evd = dict(property_id=self.pid, tier=self.tier, seed=self.seed, level=self.level, coverage=cov,
                   assumptions=self.assumptions, wall_s=round(time.time() - self.t0, 2),
                   violations=len(by_key))
        # evidence/ describes /repo itself; runs against another checkout (VERIF_REPO, used for seeded changes) write theirs aside
        edir = "evidence" if os.environ.get("VERIF_REPO", "/repo") == "/repo" else os.path.join(".work", "evidence_other")
        os.makedirs(os.path.join(ROOT, edir), exist_ok=True)
        with open(os.path.join(ROOT, edir, self.pid + ".json"), "w") as f:
            json.dump(evd, f, indent=1, default=str)
        print("%s %s: %s  (states=%d transitions=%d traces=%d evaluations=%d distinct=%d wall=%.1fs)" % (
            self.pid, self.tier, "HELD" if rc == 0 else "VIOLATED", self.states, self.transitions, self.traces,
            self.evaluations, len(self.distinct), time.time() - self.t0))
        return rc


def jsonable(x):
    if isinstance(x, (bytes, bytearray)):
        return list(x)
    if isinstance(x, (list, tuple)):
        return [jsonable(i) for i in x]
    if isinstance(x, dict):
        return {str(k): jsonable(v) for k, v in x.items()}
    if isinstance(x, (set, frozenset)):
        return sorted(jsonable(i) for i in x)
    return x
